"""Independent name resolver, expression evaluator and dimvec reader."""

from fractions import Fraction as Fr

import mpmath as mp

from . import table as T

mpf = mp.mpf


def readings(name):
    """Readings of *name*, falling back to the title-case rule (``Meter``,
    ``Kilodegree_Kelvin``: a spelling whose lower-case form title-cases to it)."""
    rs = _readings(name)
    if not rs and name and name == name.lower().title() and name != name.lower():
        rs = [("title:" + k, p, b) for k, p, b in _readings(name.lower())]
    if not rs:
        rs = [("title:symbol", None, s) for s in T.ROWS if len(s) > 3 and s.title() == name
              and s != name]
    return rs


def _readings(name):
    """All ways *name* can be read: [(kind, prefix_symbol_or_None, base_symbol)].

    kind: 'symbol' (table row), 'alias' (golden alias), 'prefixed' (prefix symbol +
    prefixable symbol or short alias), 'word' (prefix word + alias word).
    """
    out = []
    if name in T.ROWS:
        out.append(("symbol", None, name))
    if name in T.ALIASES:
        out.append(("alias", None, T.ALIASES[name]))
    for p in T.PREFIXES:
        if name.startswith(p) and len(name) > len(p):
            rest = name[len(p):]
            if rest in T.ROWS and T.ROWS[rest]["prefixable"]:
                out.append(("prefixed", p, rest))
            elif rest in T.ALIASES and T.ROWS[T.ALIASES[rest]]["prefixable"] and len(rest) < 4:
                out.append(("prefixed", p, T.ALIASES[rest]))
    for w, (val, sym) in T.PREFIX_WORDS.items():
        for cand in (name, name[:1].lower() + name[1:]):
            if cand.startswith(w) and len(cand) > len(w):
                rest = cand[len(w):]
                if rest in T.ALIASES and T.ROWS[T.ALIASES[rest]]["prefixable"]:
                    out.append(("word", sym, T.ALIASES[rest]))
                    break
    return out


def scale_of(prefix, base):
    s = T.ROWS[base]["scale"]
    if prefix:
        s = s * T.PREFIXES[prefix][0]
    return s


def atom(name):
    """(scale, dimvec, offset) for an atomic unit name by the oracle's reading
    (table symbol/alias wins over prefix splits, as the property requires)."""
    rs = readings(name)
    if not rs:
        raise KeyError(name)
    kind, p, base = rs[0]
    r = T.ROWS[base]
    return scale_of(p, base), r["dim"], r["offset"]


# ---- expression ASTs ---------------------------------------------------------
# ("u", name) | ("n", "numeric literal") | ("*", a, b) | ("/", a, b) | ("**", a, Fraction)
# | ("sqrt", a)


def evaluate(ast, atom_fn=atom):
    """-> (scale mpf, dimvec) ; offsets are dropped for compounds (as any
    multiplicative algebra must)."""
    k = ast[0]
    if k == "u":
        s, d, _ = atom_fn(ast[1])
        return s, d
    if k == "n":
        return mpf(ast[1]), T.ZERO
    if k == "*":
        a, b = evaluate(ast[1], atom_fn), evaluate(ast[2], atom_fn)
        return a[0] * b[0], T.dmul(a[1], b[1])
    if k == "/":
        a, b = evaluate(ast[1], atom_fn), evaluate(ast[2], atom_fn)
        return a[0] / b[0], T.ddiv(a[1], b[1])
    if k == "**":
        a = evaluate(ast[1], atom_fn)
        p = Fr(ast[2])
        return mp.power(a[0], mpf(p.numerator) / p.denominator), T.dpow(a[1], p)
    if k == "sqrt":
        a = evaluate(ast[1], atom_fn)
        return mp.sqrt(a[0]), T.dpow(a[1], Fr(1, 2))
    raise ValueError(k)


def render(ast, style=0):
    """Print an AST as a unyt unit string (fully parenthesised where needed)."""
    k = ast[0]
    if k == "u":
        return ast[1]
    if k == "n":
        return ast[1]
    if k == "*":
        return f"{_p(ast[1], style)}*{_p(ast[2], style)}"
    if k == "/":
        return f"{_p(ast[1], style)}/{_p(ast[2], style)}"
    if k == "**":
        p = Fr(ast[2])
        base = _p(ast[1], style)
        if p.denominator == 1:
            e = str(p.numerator) if p.numerator >= 0 else f"({p.numerator})"
            if style == 1 and p.numerator < 0:
                e = str(p.numerator)
        else:
            if style == 1 and p.denominator in (2, 4, 5, 8, 10):
                e = f"({float(p)!r})"
            else:
                e = f"({p.numerator}/{p.denominator})"
        return f"{base}**{e}"
    if k == "sqrt":
        return f"sqrt({render(ast[1], style)})"
    raise ValueError(k)


def _p(ast, style):
    if ast[0] in ("u", "sqrt"):
        return render(ast, style)
    if ast[0] == "n":
        return ast[1] if not ast[1].startswith("-") else f"({ast[1]})"
    return "(" + render(ast, style) + ")"


def n_atoms(ast):
    if ast[0] == "u":
        return 1
    if ast[0] == "n":
        return 0
    return sum(n_atoms(a) for a in ast[1:] if isinstance(a, tuple))


# ---- reading unyt objects as data -------------------------------------------

_DIMSYM = None


def dimvec_of(dimexpr):
    """8-vector of a unyt ``dimensions`` sympy expression (data access only)."""
    global _DIMSYM
    import sympy

    if _DIMSYM is None:
        import unyt.dimensions as D

        _DIMSYM = {
            str(D.mass): 0, str(D.length): 1, str(D.time): 2, str(D.temperature): 3,
            str(D.angle): 4, str(D.current_mks): 5, str(D.luminous_intensity): 6,
            str(D.logarithmic): 7,
        }
    v = [Fr(0)] * 8
    e = sympy.sympify(dimexpr)
    e = sympy.powsimp(sympy.expand_power_base(e, force=True), force=True)
    for b, p in e.as_powers_dict().items():
        if b == 1:
            continue
        if b.is_Number:
            raise ValueError(f"numeric factor {b} in dimensions {dimexpr}")
        i = _DIMSYM[str(b)]
        v[i] += Fr(int(sympy.Rational(p).p), int(sympy.Rational(p).q))
    return tuple(v)


def rel(a, b):
    a = mpf(a)
    b = mpf(b)
    if b == 0:
        return float(abs(a))
    return float(abs(a / b - 1))
