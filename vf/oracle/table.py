"""Independent unit-definition table.

Hand-written from the SI brochure, NIST SP 811 / SP 330, the international
yard-and-pound agreement, IAU 2012/2015 resolutions and CODATA 2018 -- *never*
imported from unyt.  Scales are factors to the coherent SI unit of the same
dimension (kg, m, s, K, rad, A, cd, Np), carried as 40-digit mpmath numbers;
dimension vectors are exponents over

    (mass, length, time, temperature, angle, current, luminous_intensity, logarithmic)

Offsets follow  SI = (value - offset) * scale.

Tolerance classes (relative), fixed in DESIGN.md §2.1:
  X  exact definition                        1e-7
  M  CODATA-type measured constant           1e-6
  G  Newton's G and everything ~ G**±1/2     1e-4
  A  astronomical nominal values             1e-3
  T  solar effective temperature etc.        1e-3 (same as A, kept separate for reporting)
  S  no independent standard (solar metallicity per cited paper): snapshot of
     the pinned tree's value, 1e-9 -- a pure change detector, said so in evidence.
"""

from fractions import Fraction as Fr  # noqa: re-exported as T.Fr

import mpmath as mp

mp.mp.dps = 40
mpf = mp.mpf
pi = mp.pi

TOL = {"X": 1e-7, "M": 1e-6, "G": 1e-4, "A": 1e-3, "T": 1e-3, "S": 1e-9}

DIMS = ("mass", "length", "time", "temperature", "angle", "current", "luminous_intensity",
        "logarithmic")


def dv(mass=0, length=0, time=0, temperature=0, angle=0, current=0, lum=0, log=0):
    return tuple(Fr(x) for x in (mass, length, time, temperature, angle, current, lum, log))


def dmul(a, b):
    return tuple(x + y for x, y in zip(a, b))


def dpow(a, p):
    p = Fr(p)
    return tuple(x * p for x in a)


def ddiv(a, b):
    return dmul(a, dpow(b, -1))


ZERO = dv()
MASS = dv(mass=1)
LENGTH = dv(length=1)
TIME = dv(time=1)
TEMP = dv(temperature=1)
ANGLE = dv(angle=1)
CURRENT = dv(current=1)
LUM = dv(lum=1)
LOG = dv(log=1)
AREA = dpow(LENGTH, 2)
VOLUME = dpow(LENGTH, 3)
VELOCITY = ddiv(LENGTH, TIME)
ACCEL = ddiv(VELOCITY, TIME)
FORCE = dmul(MASS, ACCEL)
ENERGY = dmul(FORCE, LENGTH)
POWER = ddiv(ENERGY, TIME)
PRESSURE = ddiv(FORCE, AREA)
TENSION = ddiv(FORCE, LENGTH)
RATE = dpow(TIME, -1)
SOLID = dpow(ANGLE, 2)
CHARGE = dmul(CURRENT, TIME)
EPOT = ddiv(ENERGY, CHARGE)
RESIST = ddiv(EPOT, CURRENT)
CAPAC = ddiv(CHARGE, EPOT)
EFIELD = ddiv(FORCE, CHARGE)
BFIELD = ddiv(EFIELD, VELOCITY)
MFLUX = dmul(BFIELD, AREA)
INDUCT = ddiv(MFLUX, CURRENT)
SPEC_ENERGY = ddiv(ENERGY, MASS)
FLUX = ddiv(POWER, AREA)
SPEC_FLUX = ddiv(FLUX, RATE)
LUMFLUX = dmul(LUM, SOLID)
LUMINANCE = ddiv(LUM, AREA)
COUNT_INT = ddiv(dpow(dmul(AREA, TIME), -1), SOLID)
# Gaussian
CHARGE_CGS = dpow(dmul(ENERGY, LENGTH), Fr(1, 2))
CURRENT_CGS = ddiv(CHARGE_CGS, TIME)
EFIELD_CGS = ddiv(CHARGE_CGS, AREA)
BFIELD_CGS = EFIELD_CGS
EPOT_CGS = ddiv(ENERGY, CHARGE_CGS)
RESIST_CGS = ddiv(EPOT_CGS, CURRENT_CGS)
MFLUX_CGS = dmul(BFIELD_CGS, AREA)

# ---- primary definitions ---------------------------------------------------
inch = mpf("0.0254")
ft = 12 * inch
yd = 3 * ft
mile = 5280 * ft
lb = mpf("0.45359237")
g0 = mpf("9.80665")
lbf = lb * g0
c = mpf(299792458)
day = mpf(86400)
julian_year = mpf("365.25") * day
AU = mpf(149597870700)
pc = 648000 / pi * AU
# CODATA 2018 / SI 2019
h = mpf("6.62607015e-34")
hbar = h / (2 * pi)
e_ch = mpf("1.602176634e-19")
kB = mpf("1.380649e-23")
NA = mpf("6.02214076e23")
G = mpf("6.67430e-11")
m_e = mpf("9.1093837015e-31")
m_p = mpf("1.67262192369e-27")
m_u = mpf("1.66053906660e-27")
m_H = mpf("1.00782503223") * m_u  # 1H atom; unyt's "mh" uses standard atomic weight 1.00794
eps0 = mpf("8.8541878128e-12")
mu0 = mpf("1.25663706212e-6")
Rinf = mpf("10973731.568160")
Ry_J = h * c * Rinf
sigma_sb = 2 * pi**5 * kB**4 / (15 * c**2 * h**3)
# IAU 2015 nominal / Standish 1995 system mass ratios
GM_sun = mpf("1.3271244e20")
Msun = GM_sun / G
Rsun = mpf("6.957e8")
Lsun = mpf("3.828e26")
Tsun = mpf(5772)
gal_US = 231 * inch**3
gal_UK = mpf("4.54609e-3")
BTU_IT = mpf("1055.05585262")
ln10 = mp.log(10)

ROWS = {}


def row(sym, scale, dim, offset=0, prefixable=False, cls="X"):
    ROWS[sym] = {"scale": mpf(scale), "dim": dim, "offset": mpf(offset), "prefixable": prefixable,
                 "cls": cls}


# base
row("m", 1, LENGTH, prefixable=True)
row("g", mpf("1e-3"), MASS, prefixable=True)
row("s", 1, TIME, prefixable=True)
row("K", 1, TEMP, prefixable=True)
row("rad", 1, ANGLE, prefixable=True)
row("A", 1, CURRENT, prefixable=True)
row("cd", 1, LUM, prefixable=True)
row("mol", NA, ZERO, prefixable=True, cls="M")
# cgs
row("dyn", mpf("1e-5"), FORCE, prefixable=True)
row("erg", mpf("1e-7"), ENERGY, prefixable=True)
row("Ba", mpf("0.1"), PRESSURE, prefixable=True)
row("G", mp.sqrt(mpf("0.1")), BFIELD_CGS, prefixable=True)
row("statC", mpf(10) ** mpf("-4.5"), CHARGE_CGS, prefixable=True)
row("statA", mpf(10) ** mpf("-4.5"), CURRENT_CGS, prefixable=True)
row("statV", mpf(10) ** mpf("-2.5"), EPOT_CGS, prefixable=True)
row("statohm", 100, RESIST_CGS, prefixable=True)
row("Mx", mpf(10) ** mpf("-4.5"), MFLUX_CGS, prefixable=True)
# SI derived
row("J", 1, ENERGY, prefixable=True)
row("W", 1, POWER, prefixable=True)
row("Hz", 1, RATE, prefixable=True)
row("N", 1, FORCE, prefixable=True)
row("C", 1, CHARGE, prefixable=True)
row("T", 1, BFIELD, prefixable=True)
row("Pa", 1, PRESSURE, prefixable=True)
row("bar", mpf("1e5"), PRESSURE, prefixable=True)
row("V", 1, EPOT, prefixable=True)
row("F", 1, CAPAC, prefixable=True)
row("H", 1, INDUCT, prefixable=True)
row("Ω", 1, RESIST, prefixable=True)
row("Wb", 1, MFLUX, prefixable=True)
row("lm", 1, LUMFLUX, prefixable=True)
row("lx", 1, ddiv(LUMFLUX, AREA), prefixable=True)
row("degC", 1, TEMP, offset=mpf("-273.15"), prefixable=True)
row("delta_degC", 1, TEMP, prefixable=True)
row("L", mpf("1e-3"), VOLUME, prefixable=True)
row("ha", mpf("1e4"), AREA)
row("t", mpf("1e3"), MASS)
# imperial & customary
row("mil", inch / 1000, LENGTH)
row("inch", inch, LENGTH)
row("ft", ft, LENGTH)
row("yd", yd, LENGTH)
row("mile", mile, LENGTH)
row("nmi", 1852, LENGTH)
row("mph", mile / 3600, VELOCITY)
row("kt", mpf(1852) / 3600, VELOCITY)
row("acre", 43560 * ft**2, AREA)
row("furlong", 660 * ft, LENGTH)
row("degF", mpf(5) / 9, TEMP, offset=mpf("-459.67"))
row("delta_degF", mpf(5) / 9, TEMP)
row("R", mpf(5) / 9, TEMP)
row("lbf", lbf, FORCE)
row("kip", 1000 * lbf, FORCE)
row("lb", lb, MASS)
row("atm", 101325, PRESSURE)
row("hp", 550 * ft * lbf, POWER)
row("oz", lb / 16, MASS)
row("ton", 2000 * lb, MASS)
row("ton_UK", 2240 * lb, MASS)
row("slug", lbf / ft, MASS)
row("fl_oz_US", gal_US / 128, VOLUME)
row("fl_oz_UK", gal_UK / 160, VOLUME)
row("pt_US", gal_US / 8, VOLUME)
row("pt_UK", gal_UK / 8, VOLUME)
row("qt_US", gal_US / 4, VOLUME)
row("qt_UK", gal_UK / 4, VOLUME)
row("gal_US", gal_US, VOLUME)
row("gal_UK", gal_UK, VOLUME)
row("cal", mpf("4.184"), ENERGY, prefixable=True)
row("BTU", BTU_IT, ENERGY, cls="M")
row("MMBTU", 1e6 * BTU_IT, ENERGY, cls="M")
row("therm", 1e5 * BTU_IT, ENERGY, cls="M")
row("quad", mpf("1e15") * BTU_IT, ENERGY, cls="M")
row("Wh", 3600, ENERGY, prefixable=True)
row("pli", lbf / inch, TENSION)
row("plf", lbf / ft, TENSION)
row("psi", lbf / inch**2, PRESSURE)
row("psf", lbf / ft**2, PRESSURE)
row("kli", 1000 * lbf / inch, TENSION)
row("klf", 1000 * lbf / ft, TENSION)
row("ksi", 1000 * lbf / inch**2, PRESSURE)
row("ksf", 1000 * lbf / ft**2, PRESSURE)
row("smoot", 67 * inch, LENGTH)
# dimensionless
row("dimensionless", 1, ZERO)
row("%", mpf("0.01"), ZERO)
# times
row("min", 60, TIME)
row("hr", 3600, TIME)
row("day", day, TIME)
row("week", 7 * day, TIME)
row("fortnight", 14 * day, TIME)
row("yr", julian_year, TIME, prefixable=True)
# velocity
row("c", c, VELOCITY)
# solar / planetary
row("Msun", Msun, MASS, cls="A")
row("Rsun", Rsun, LENGTH, cls="A")
row("Lsun", Lsun, POWER, cls="A")
row("Tsun", Tsun, TEMP, cls="T")
row("Zsun", mpf("0.01295"), ZERO, cls="S")
row("Zsun_angr", mpf("0.01937"), ZERO, cls="S")
row("Zsun_aspl", mpf("0.01337"), ZERO, cls="S")
row("Zsun_feld", mpf("0.01909"), ZERO, cls="S")
row("Zsun_lodd", mpf("0.01321"), ZERO, cls="S")
row("Mjup", Msun / mpf("1047.3486"), MASS, cls="A")  # system mass (planet + moons)
row("Mearth", Msun / mpf("328900.56"), MASS, cls="A")  # Earth + Moon
row("Rjup", mpf("6.9911e7"), LENGTH, cls="A")  # volumetric mean
row("Rearth", mpf("6.3710e6"), LENGTH, cls="A")  # volumetric mean
# astro distances
row("AU", AU, LENGTH)
row("ly", c * julian_year, LENGTH)
row("pc", pc, LENGTH, prefixable=True)
# angles
row("degree", pi / 180, ANGLE)
row("arcmin", pi / 10800, ANGLE)
row("arcsec", pi / 648000, ANGLE)
row("mas", pi / 648000000, ANGLE)
row("hourangle", pi / 12, ANGLE)
row("sr", 1, SOLID)
row("lat", -pi / 180, ANGLE, offset=90)
row("lon", pi / 180, ANGLE, offset=-180)
row("rpm", 2 * pi / 60, ddiv(ANGLE, TIME))
row("rev", 2 * pi, ANGLE)
row("spat", 4 * pi, SOLID)
row("gradian", pi / 200, ANGLE)
# misc
row("eV", e_ch, ENERGY, prefixable=True, cls="M")
row("foe", mpf("1e44"), ENERGY)
row("bethe", mpf("1e44"), ENERGY)
row("amu", m_u, MASS, cls="M")
row("Å", mpf("1e-10"), LENGTH)
row("Jy", mpf("1e-26"), SPEC_FLUX, prefixable=True)
row("counts", 1, ZERO)
row("photons", 1, ZERO)
row("me", m_e, MASS, cls="M")
row("mp", m_p, MASS, cls="M")
row("Sv", 1, SPEC_ENERGY, prefixable=True)
row("Ry", Ry_J, ENERGY, cls="M")
row("rayleigh", mpf("1e10") / (4 * pi), COUNT_INT)
row("lambert", mpf("1e4") / pi, LUMINANCE)
row("nt", 1, LUMINANCE)
# Planck units (Gaussian-free: from G, hbar, c, kB, eps0)
row("m_pl", mp.sqrt(hbar * c / G), MASS, cls="G")
row("l_pl", mp.sqrt(hbar * G / c**3), LENGTH, cls="G")
row("t_pl", mp.sqrt(hbar * G / c**5), TIME, cls="G")
row("T_pl", mp.sqrt(hbar * c**5 / G) / kB, TEMP, cls="G")
row("q_pl", mp.sqrt(4 * pi * eps0 * hbar * c), CHARGE, cls="M")
row("E_pl", mp.sqrt(hbar * c**5 / G), ENERGY, cls="G")
# geometrized
row("m_geom", Msun, MASS, cls="A")
row("l_geom", GM_sun / c**2, LENGTH, cls="A")
row("t_geom", GM_sun / c**3, TIME, cls="A")
# logarithmic
row("B", ln10 / 2, LOG, prefixable=True)
row("Np", 1, LOG, prefixable=True)

# ---- SI prefixes (symbol -> (value, word forms)) -----------------------------
PREFIXES = {
    "Y": (mpf(10) ** 24, ("yotta",)),
    "Z": (mpf(10) ** 21, ("zetta",)),
    "E": (mpf(10) ** 18, ("exa",)),
    "P": (mpf(10) ** 15, ("peta",)),
    "T": (mpf(10) ** 12, ("tera",)),
    "G": (mpf(10) ** 9, ("giga",)),
    "M": (mpf(10) ** 6, ("mega",)),
    "k": (mpf(10) ** 3, ("kilo",)),
    "h": (mpf(10) ** 2, ("hecto",)),
    "da": (mpf(10) ** 1, ("deca",)),
    "d": (mpf(10) ** -1, ("deci",)),
    "c": (mpf(10) ** -2, ("centi",)),
    "m": (mpf(10) ** -3, ("milli",)),
    "µ": (mpf(10) ** -6, ("micro",)),  # U+00B5
    "u": (mpf(10) ** -6, ("micro",)),
    "μ": (mpf(10) ** -6, ("micro",)),  # U+03BC
    "n": (mpf(10) ** -9, ("nano",)),
    "p": (mpf(10) ** -12, ("pico",)),
    "f": (mpf(10) ** -15, ("femto",)),
    "a": (mpf(10) ** -18, ("atto",)),
    "z": (mpf(10) ** -21, ("zepto",)),
    "y": (mpf(10) ** -24, ("yocto",)),
}
PREFIX_WORDS = {}
for _sym, (_val, _words) in PREFIXES.items():
    for _w in _words:
        PREFIX_WORDS[_w] = (_val, _sym)

# ---- everyday spellings -> canonical symbol (golden alias list, C14) ----------
ALIASES = {
    "meter": "m", "metre": "m", "gram": "g", "gramme": "g", "second": "s", "kelvin": "K",
    "degree_kelvin": "K", "radian": "rad", "ampere": "A", "amp": "A", "Amp": "A",
    "candela": "cd", "mole": "mol", "dyne": "dyn", "ergs": "erg", "barye": "Ba", "gauss": "G",
    "statcoulomb": "statC", "esu": "statC", "ESU": "statC", "electrostatic_unit": "statC",
    "statampere": "statA", "statvolt": "statV", "maxwell": "Mx", "joule": "J", "watt": "W",
    "hertz": "Hz", "newton": "N", "coulomb": "C", "tesla": "T", "pascal": "Pa", "volt": "V",
    "farad": "F", "henry": "H", "ohm": "Ω", "Ohm": "Ω", "weber": "Wb", "lumen": "lm",
    "lux": "lx", "degree_celsius": "degC", "degree_Celsius": "degC", "celcius": "degC",
    "celsius": "degC", "°C": "degC", "liter": "L", "litre": "L", "l": "L", "hectare": "ha",
    "tonne": "t", "metric_ton": "t", "thou": "mil", "thousandth": "mil", "in": "inch",
    "foot": "ft", "yard": "yd", "fur": "furlong", "degree_fahrenheit": "degF",
    "degree_Fahrenheit": "degF", "fahrenheit": "degF", "°F": "degF", "degree_rankine": "R",
    "rankine": "R", "pound_force": "lbf", "kilopound": "kip", "kipf": "kip", "pound": "lb",
    "pound_mass": "lb", "lbm": "lb", "ton_US": "ton", "short_ton": "ton", "long_ton": "ton_UK",
    "atmosphere": "atm", "horsepower": "hp", "ounce": "oz", "nautical_mile": "nmi",
    "fluid_ounce_US": "fl_oz_US", "fluid_ounce_UK": "fl_oz_UK", "pint_US": "pt_US",
    "pint_UK": "pt_UK", "quart_US": "qt_US", "quart_UK": "qt_UK", "gallon_US": "gal_US",
    "gallon_UK": "gal_UK", "knot": "kt", "calorie": "cal", "british_thermal_unit": "BTU",
    "btu": "BTU", "mmbtu": "MMBTU", "therms": "therm", "quads": "quad", "watt_hour": "Wh",
    "pounds_per_square_inch": "psi", "pounds_per_square_ft": "psf", "pounds_per_inch": "pli",
    "pounds_per_ft": "plf", "kips_per_inch": "kli", "kips_per_ft": "klf",
    "kips_per_square_inch": "ksi", "kips_per_square_ft": "ksf", "": "dimensionless",
    "_": "dimensionless", "bel": "B", "neper": "Np", "minute": "min", "hour": "hr", "d": "day",
    "year": "yr", "msun": "Msun", "solar_mass": "Msun", "solMass": "Msun", "M_sun": "Msun",
    "rsun": "Rsun", "solar_radius": "Rsun", "solRadius": "Rsun", "lsun": "Lsun",
    "solar_luminosity": "Lsun", "solLuminosity": "Lsun", "tsun": "Tsun",
    "solar_temperature": "Tsun", "zsun": "Zsun", "solar_metallicity": "Zsun",
    "jupiter_mass": "Mjup", "m_jup": "Mjup", "earth_mass": "Mearth", "m_earth": "Mearth",
    "jupiter_radius": "Rjup", "r_jup": "Rjup", "earth_radius": "Rearth", "r_earth": "Rearth",
    "au": "AU", "astronomical_unit": "AU", "parsec": "pc", "light_year": "ly", "deg": "degree",
    "arcminute": "arcmin", "arcsecond": "arcsec", "milliarcsecond": "mas", "HA": "hourangle",
    "steradian": "sr", "latitude": "lat", "degree_latitude": "lat", "longitude": "lon",
    "degree_longitude": "lon", "revolution": "rev", "turn": "rev", "pla": "rev", "gon": "gradian",
    "electronvolt": "eV", "atomic_mass_unit": "amu", "angstrom": "Å", "jansky": "Jy",
    "count": "counts", "photon": "photons", "electron_mass": "me", "proton_mass": "mp",
    "sievert": "Sv", "nit": "nt", "percent": "%", "planck_mass": "m_pl",
    "planck_length": "l_pl", "planck_time": "t_pl", "planck_temperature": "T_pl",
    "planck_charge": "q_pl", "planck_energy": "E_pl",
    "watt_hours": "Wh", "ton_US_short": "ton", "ton_US_long": "ton_UK",
    "m_sun": "Msun", "m_Sun": "Msun", "mass_sun": "Msun", "r_sun": "Rsun", "R_sun": "Rsun",
    "r_Sun": "Rsun", "l_sun": "Lsun", "L_sun": "Lsun", "l_Sun": "Lsun", "t_sun": "Tsun",
    "T_sun": "Tsun", "t_Sun": "Tsun", "solTemperature": "Tsun", "z_sun": "Zsun",
    "Z_sun": "Zsun", "z_Sun": "Zsun", "solMetallicity": "Zsun",
}

# prefixed everyday spellings -> (prefix symbol, canonical base)
GOLDEN_PREFIXED = {
    "km": ("k", "m"), "cm": ("c", "m"), "mm": ("m", "m"), "um": ("u", "m"), "µm": ("µ", "m"),
    "μm": ("μ", "m"), "nm": ("n", "m"), "kg": ("k", "g"), "mg": ("m", "g"), "ms": ("m", "s"),
    "ns": ("n", "s"), "kilometer": ("k", "m"), "centimeter": ("c", "m"), "kilometre": ("k", "m"),
    "kilogram": ("k", "g"), "milligram": ("m", "g"), "millisecond": ("m", "s"),
    "microsecond": ("u", "s"), "nanometer": ("n", "m"), "kpc": ("k", "pc"), "Mpc": ("M", "pc"),
    "Gpc": ("G", "pc"), "kiloparsec": ("k", "pc"), "megaparsec": ("M", "pc"), "Myr": ("M", "yr"),
    "Gyr": ("G", "yr"), "kyr": ("k", "yr"), "keV": ("k", "eV"), "MeV": ("M", "eV"),
    "GeV": ("G", "eV"), "kJ": ("k", "J"), "MJ": ("M", "J"), "kW": ("k", "W"), "MW": ("M", "W"),
    "GW": ("G", "W"), "kWh": ("k", "Wh"), "kilowatt_hour": ("k", "Wh"), "kHz": ("k", "Hz"),
    "MHz": ("M", "Hz"), "GHz": ("G", "Hz"), "kPa": ("k", "Pa"), "MPa": ("M", "Pa"),
    "GPa": ("G", "Pa"), "hPa": ("h", "Pa"), "mbar": ("m", "bar"), "kN": ("k", "N"),
    "mA": ("m", "A"), "uA": ("u", "A"), "kV": ("k", "V"), "mV": ("m", "V"), "uF": ("u", "F"),
    "pF": ("p", "F"), "nF": ("n", "F"), "mH": ("m", "H"), "kΩ": ("k", "Ω"), "kohm": ("k", "Ω"),
    "megaohm": ("M", "Ω"), "mL": ("m", "L"), "ml": ("m", "L"), "dL": ("d", "L"),
    "milliliter": ("m", "L"), "kcal": ("k", "cal"), "kilocalorie": ("k", "cal"), "mK": ("m", "K"),
    "uK": ("u", "K"), "mrad": ("m", "rad"), "urad": ("u", "rad"), "mJy": ("m", "Jy"),
    "uG": ("u", "G"), "mG": ("m", "G"), "nT": ("n", "T"), "mT": ("m", "T"), "mmol": ("m", "mol"),
    "dB": ("d", "B"), "decibel": ("d", "B"), "mSv": ("m", "Sv"), "uSv": ("u", "Sv"),
    "dam": ("da", "m"), "dag": ("da", "g"), "decameter": ("da", "m"), "decagram": ("da", "g"),
    "hectopascal": ("h", "Pa"), "millibar": ("m", "bar"), "kilojoule": ("k", "J"),
    "megawatt": ("M", "W"), "gigahertz": ("G", "Hz"), "microgauss": ("u", "G"),
    "millikelvin": ("m", "K"), "mdegC": ("m", "degC"), "kdyn": ("k", "dyn"), "Merg": ("M", "erg"),
    "mlx": ("m", "lx"), "klm": ("k", "lm"), "mcd": ("m", "cd"), "uWb": ("u", "Wb"),
    "mC": ("m", "C"), "nC": ("n", "C"), "fm": ("f", "m"), "pm": ("p", "m"), "am": ("a", "m"),
    "Ym": ("Y", "m"), "ym": ("y", "m"), "Zm": ("Z", "m"), "zm": ("z", "m"), "Em": ("E", "m"),
    "Pm": ("P", "m"), "Tm": ("T", "m"), "Gm": ("G", "m"), "Mm": ("M", "m"), "hm": ("h", "m"),
    "dm": ("d", "m"),
}

# ---- constants (C15): name -> (SI magnitude, dimvec, class) -------------------
CONSTANTS = {
    "me": (m_e, MASS, "M"),
    "Na": (NA, ZERO, "M"),  # carried as mol**-1 (mol is a pure number in unyt)
    "mp": (m_p, MASS, "M"),
    "mh": (mpf("1.00794") * m_u, MASS, "M"),  # standard atomic weight of H × u
    "c": (c, VELOCITY, "X"),
    "σ_T": (mpf("6.6524587321e-29"), AREA, "M"),
    "qp": (e_ch, CHARGE, "M"),
    "qe": (-e_ch, CHARGE, "M"),
    "kb": (kB, ddiv(ENERGY, TEMP), "M"),
    "G": (G, ddiv(dmul(VOLUME, dpow(MASS, -1)), dpow(TIME, 2)), "G"),
    "h": (h, dmul(ENERGY, TIME), "M"),
    "hbar": (hbar, dmul(ENERGY, TIME), "M"),
    "σ": (sigma_sb, ddiv(ddiv(POWER, AREA), dpow(TEMP, 4)), "M"),
    "a": (4 * sigma_sb / c, ddiv(ddiv(ENERGY, VOLUME), dpow(TEMP, 4)), "M"),
    "Tcmb": (mpf("2.7255"), TEMP, "A"),
    "Msun": (Msun, MASS, "A"),
    "Mjup": (Msun / mpf("1047.3486"), MASS, "A"),
    "mercury_mass": (Msun / mpf("6023600.0"), MASS, "A"),
    "venus_mass": (Msun / mpf("408523.71"), MASS, "A"),
    "Mearth": (Msun / mpf("328900.56"), MASS, "A"),
    "mars_mass": (Msun / mpf("3098708.0"), MASS, "A"),
    "saturn_mass": (Msun / mpf("3497.898"), MASS, "A"),
    "uranus_mass": (Msun / mpf("22902.98"), MASS, "A"),
    "neptune_mass": (Msun / mpf("19412.24"), MASS, "A"),
    "m_pl": (mp.sqrt(hbar * c / G), MASS, "G"),
    "l_pl": (mp.sqrt(hbar * G / c**3), LENGTH, "G"),
    "t_pl": (mp.sqrt(hbar * G / c**5), TIME, "G"),
    "E_pl": (mp.sqrt(hbar * c**5 / G), ENERGY, "G"),
    "q_pl": (mp.sqrt(4 * pi * eps0 * hbar * c), CHARGE, "M"),
    "T_pl": (mp.sqrt(hbar * c**5 / G) / kB, TEMP, "G"),
    "mu_0": (mu0, ddiv(FORCE, dpow(CURRENT, 2)), "M"),
    "eps_0": (eps0, ddiv(dpow(CHARGE, 2), dmul(FORCE, AREA)), "M"),
    "R_inf": (Rinf, dpow(LENGTH, -1), "M"),
    "standard_gravity": (g0, ACCEL, "X"),
}

# symbols by dimension vector (for generators)
BY_DIM = {}
for _s, _r in ROWS.items():
    BY_DIM.setdefault(_r["dim"], []).append(_s)


def dim_name(d):
    parts = []
    for n, e in zip(DIMS, d):
        if e:
            parts.append(n if e == 1 else f"{n}^{e}")
    return "*".join(parts) or "1"
