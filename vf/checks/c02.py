"""C02 -- every unit's scale and dimension agree with its definition.

(A) every resolvable name vs the independent table (class tolerances; prefix mechanics at
    4 ulp against the library's own base scale),
(B) x.to(u2) == x*scale(u1)/scale(u2) over same-dimension pairs of canonical names,
(C) generated compound expressions vs the exact evaluator (mpmath, 40 digits)."""

import math
from fractions import Fraction as Fr

import numpy as np
from hypothesis import strategies as st

from vf import core
from vf.gen import units as G
from vf.oracle import resolve as R
from vf.oracle import table as T

MOD = "vf.checks.c02"


def _facts(u):
    return float(u.base_value), R.dimvec_of(u.dimensions), float(u.base_offset)


def _rel(a, b):
    if a == b:
        return 0.0
    if b == 0 or not math.isfinite(a) or not math.isfinite(b):
        return float("inf")
    return abs(a / b - 1)


# ---------------------------------------------------------------- part A
def part_names(payload):
    from unyt import Unit
    from unyt._unit_lookup_table import inv_name_alternatives
    from unyt.exceptions import UnitParseError

    known = core.Known("C02")
    part = core.Part()
    lib_base = {}
    for i, name in enumerate(inv_name_alternatives):
        rs = R.readings(name)
        if not rs:
            continue
        kind, p, base = rs[0]
        try:
            u = Unit(name)
        except UnitParseError:
            part.count("unparsable documented name (C14's finding)")
            continue
        part.ev()
        part.nt(("name", (p if p not in G.PREFIX_SYMS[13:16] else "u") if p else "", base))
        s, d, o = _facts(u)
        row = T.ROWS[base]
        want = float(R.scale_of(p, base))
        if d != row["dim"]:
            core.classify(known, part, f"C02:dimension:{base}", {"name": name, "got": d, "want": row["dim"]})
            continue
        if _rel(o, float(row["offset"])) > 1e-12:
            core.classify(known, part, f"C02:offset:{base}", {"name": name, "got": o, "want": float(row["offset"])})
        if base not in lib_base:
            lib_base[base] = float(Unit(base).base_value)
        if p:
            pv = float(T.PREFIXES[p][0])
            if _rel(s, lib_base[base] * pv) > 4e-16:
                core.classify(known, part, f"C02:prefix-mechanics:{p}", {"name": name, "got": s, "want": lib_base[base] * pv})
        if _rel(s, want) > T.TOL[row["cls"]]:
            core.classify(known, part, f"C02:scale:{base}", {
                "name": name, "got": s, "definition": want, "class": row["cls"], "rel": _rel(s, want)})
        if i % 401 == 0:
            part.sample({"name": name, "reading": [kind, p, base], "lib_scale": s, "definition": want,
                         "class": row["cls"], "rel": _rel(s, want)})
    return part


# ---------------------------------------------------------------- part B
def _canon_units():
    out = []
    for name, p, b in G.all_unit_names():
        rs = R.readings(name)
        if not rs or rs[0][1] != p or rs[0][2] != b:
            continue  # string is read as a table symbol/alias instead (C14)
        if T.ROWS[b]["offset"] != 0:
            continue
        out.append((name, p, b))
    return out


def part_pairs(payload):
    from unyt import Unit, unyt_array

    known = core.Known("C02")
    part = core.Part()
    pairs = payload["pairs"]
    x = np.array([1.0, 3.0, -2.5, 1e-3, 7.0e5])
    cache = {}

    def unit(n):
        if n not in cache:
            cache[n] = Unit(n)
        return cache[n]

    for k, (n1, n2) in enumerate(pairs):
        u1, u2 = unit(n1), unit(n2)
        part.ev()
        if n1 != n2:
            part.nt((n1, n2))
        try:
            got = unyt_array(x, u1).to(u2)
        except Exception as e:
            core.classify(known, part, f"C02:to-raises:{type(e).__name__}", {"from": n1, "to": n2, "error": str(e)[:200]})
            continue
        f = float(u1.base_value) / float(u2.base_value)
        want = x * f
        if not math.isfinite(f) or f == 0:
            part.count("excluded_range")
            continue
        err = np.max(np.abs(got.d / want - 1))
        if not (err <= 1e-15 * 4) or got.units != u2:
            core.classify(known, part, "C02:to-factor", {"from": n1, "to": n2, "got": got.d.tolist(), "want": want.tolist()})
        # oracle-table ratio too (class tolerance of both rows)
        b1, b2 = R.readings(n1)[0], R.readings(n2)[0]
        wf = float(R.scale_of(b1[1], b1[2]) / R.scale_of(b2[1], b2[2]))
        tol = T.TOL[T.ROWS[b1[2]]["cls"]] + T.TOL[T.ROWS[b2[2]]["cls"]]
        ok_rows = all(_rel(float(unit(r[2]).base_value), float(T.ROWS[r[2]]["scale"])) <= T.TOL[T.ROWS[r[2]]["cls"]]
                      for r in (b1, b2))
        if not ok_rows:
            part.count("pair involves a row already outside its class (reported under C02:scale)")
        elif _rel(float(got.d[0]), wf) > tol:
            a, b = sorted([b1[2], b2[2]])
            core.classify(known, part, f"C02:to-definition:{a}|{b}", {"from": n1, "to": n2, "got": float(got.d[0]), "definition": wf})
        if k % 5000 == 0:
            part.sample({"from": n1, "to": n2, "x": 1.0, "to()": float(got.d[0]), "definition_ratio": wf})
    return part


# ---------------------------------------------------------------- part C
def _budget(ast, atom_fn, mult=Fr(1)):
    """upper bound on |log10| of any intermediate product the library may form: the sum over
    atoms of |exponent * log10(scale)| (float overflow is a numeric limit, not a defect)"""
    k = ast[0]
    if k == "u":
        s = atom_fn(ast[1])[0]
        return abs(float(T.mp.log10(abs(s))) * float(mult)) if s != 0 else 1e9
    if k == "n":
        return abs(float(T.mp.log10(abs(T.mpf(ast[1])))) * float(mult))
    if k == "**":
        return _budget(ast[1], atom_fn, mult * Fr(ast[2]))
    if k == "sqrt":
        return _budget(ast[1], atom_fn, mult / 2)
    return sum(_budget(a, atom_fn, mult) for a in ast[1:])


def _case_compound(case, part):
    from unyt import Unit, unyt_array
    from unyt.exceptions import UnitParseError
    from unyt.unit_registry import UnitRegistry

    ast, partner_map, style, custom = case
    out = []
    reg = None
    extra = {}
    if custom is not None:
        reg = UnitRegistry()
        cname, cscale, cbase = custom
        import unyt.dimensions as D  # data: dimension objects are needed to call add()

        brow = T.ROWS[cbase]
        reg.add(cname, float(cscale), Unit(cbase).dimensions, prefixable=True)
        extra[cname] = (T.mpf(float(cscale)), brow["dim"], T.mpf(0))
        for p in T.PREFIXES:
            extra[p + cname] = (T.mpf(float(cscale)) * T.PREFIXES[p][0], brow["dim"], T.mpf(0))

    lib_atom = {}

    def atom_fn(name):
        if name in extra:
            return extra[name]
        s, d, o = R.atom(name)
        if name not in lib_atom:
            lib_atom[name] = T.mpf(float(Unit(name).base_value))
        return lib_atom[name], d, o

    text = R.render(ast, style)
    part.ev()
    try:
        want_s, want_d = R.evaluate(ast, atom_fn)
    except (ZeroDivisionError, ValueError):
        part.count("excluded_eval")
        return out
    if want_s == 0 or _budget(ast, atom_fn) > 280:
        part.count("excluded_range")
        return out
    nat = R.n_atoms(ast)
    try:
        u = Unit(text, registry=reg)
    except Exception as e:
        out.append((f"C02:compound-rejected:{type(e).__name__}", {"expr": text, "error": str(e)[:200]}))
        return out
    s, d, o = _facts(u)
    shape = tuple(sorted((T.dim_name(R.atom(a)[1]) if a not in extra else "custom") for a in G.atoms_of(ast)))
    if nat >= 2 or "(" in text:
        part.nt((shape, text.count("**"), text.count("/"), "sqrt" in text))
    tol = 1e-12 * max(1, nat)
    if d != want_d:
        out.append(("C02:compound-dimension", {"expr": text, "got": d, "want": want_d}))
    elif _rel(s, float(want_s)) > tol:
        out.append(("C02:compound-scale", {"expr": text, "got": s, "want": float(want_s), "rel": _rel(s, float(want_s))}))
    # conversion to a commensurable partner expression
    if partner_map:
        past = G.map_atoms(ast, lambda n: partner_map.get(n, n))
        ptext = R.render(past, 0)
        try:
            pw_s, pw_d = R.evaluate(past, atom_fn)
        except (ZeroDivisionError, ValueError):
            return out
        if pw_d == want_d and pw_s != 0 and _budget(past, atom_fn) < 280:
            if abs(float(T.mp.log10(abs(want_s / pw_s)))) > 280:
                part.count("excluded_range")
                return out
            part.count("partner conversions")
            x = np.array([1.0, -3.5, 1234.5])
            try:
                got = unyt_array(x, text, registry=reg).to(ptext)
            except Exception as e:
                out.append((f"C02:compound-to-raises:{type(e).__name__}", {"from": text, "to": ptext, "error": str(e)[:200]}))
                return out
            want = x * float(want_s / pw_s)
            err = float(np.max(np.abs(got.d / want - 1)))
            if not err <= 2 * tol:
                out.append(("C02:compound-to", {"from": text, "to": ptext, "got": got.d.tolist(), "want": want.tolist()}))
    if part.evaluations % 97 == 0:
        part.sample({"expr": text, "lib_scale": s, "oracle_scale": float(want_s), "dims": T.dim_name(want_d)})
    return out


@st.composite
def compound_case(draw):
    ast = draw(G.unit_ast(max_factors=5))
    pm = {}
    if draw(st.booleans()):
        for a in set(G.atoms_of(ast)):
            if draw(st.booleans()):
                pm[a] = G.partner_of(draw, a)
    style = draw(st.sampled_from([0, 0, 1]))
    custom = None
    if draw(st.integers(0, 4)) == 0:
        cbase = draw(st.sampled_from(["m", "g", "s", "J", "Pa"]))
        cscale = draw(st.sampled_from([2.0, 0.125, 3.7e5, 1.0e-9, 42.0]))
        cname = draw(st.sampled_from(["code_length", "foo", "xq"]))
        custom = (cname, cscale, cbase)
        # splice the custom unit in as an extra factor
        e = draw(st.sampled_from([Fr(1), Fr(-1), Fr(2), Fr(1, 2)]))
        pfx = draw(st.sampled_from(["", "k", "m", "M"]))
        node = ("u", pfx + cname)
        if e != 1:
            node = ("**", node, e)
        ast = ("*", ast, node)
    return (ast, pm, style, custom)


def part_compounds(payload):
    known = core.Known("C02")
    part = core.Part()
    core.hyp_explore(part, known, compound_case(), _case_compound, payload["n"], payload["seed"], label="C02:compound")
    return part


# ---------------------------------------------------------------- user-defined symbols
DEF_UNITS = {"m": T.LENGTH, "km": T.LENGTH, "pc": T.LENGTH, "inch": T.LENGTH, "g": T.MASS, "Msun": T.MASS, "s": T.TIME, "yr": T.TIME, "J": T.ENERGY, "erg": T.ENERGY, "km/s": T.VELOCITY}
DEF_NAMES = ["smootx", "pccm", "kpccmx", "xcm", "code_length", "dam2", "mq", "cmcm"]


@st.composite
def defined_case(draw):
    return {"reg": draw(st.sampled_from(["plain", "cgs", "imperial", "galactic", "solar", "custom-system"])),
            "route": draw(st.sampled_from(["add", "define_unit-tuple", "define_unit-quantity", "add+modify-float", "add+modify-quantity"])),
            "name": draw(st.sampled_from(DEF_NAMES)), "value": draw(st.sampled_from([1.7018, 2.0, 0.125, 3.0e3, 1.0 / 3.0, 42.0])),
            "unit": draw(st.sampled_from(sorted(DEF_UNITS))), "prefixable": draw(st.booleans()),
            "order": draw(st.permutations(["k{n}", "M{n}", "{n}", "m{n}", "k{n}**2", "{n}/s", "kpc", "Mpc", "pc", "km", "kg", "kpc/M{n}", "sqrt({n})", "cm", "dam"]))}


def _case_defined(c, part):
    """a symbol defined through any route, in a registry with any unit system, has the scale its definition says --
    alone, prefixed and inside compounds -- and resolving it never disturbs how other names resolve"""
    import unyt.dimensions as D
    from unyt import Unit, UnitSystem, define_unit, unyt_quantity
    from unyt.unit_registry import UnitRegistry

    out = []
    part.ev()
    if c["reg"] == "plain":
        reg = UnitRegistry()
    elif c["reg"] == "custom-system":
        UnitSystem("vfc02sys", "km", "Msun", "hr", temperature_unit="R")
        reg = UnitRegistry(unit_system="vfc02sys")
    else:
        reg = UnitRegistry(unit_system=c["reg"])
    import copy as _copy

    handle = _copy.copy(reg)  # a second handle on the same table, taken before the symbol is defined / edited
    n, v, ustr = c["name"], c["value"], c["unit"]
    usc = float(Unit(ustr).base_value)  # the defining unit's own scale is judged in part A; here: the arithmetic of the definition
    dim = DEF_UNITS[ustr]
    want = v * usc
    libdim = Unit(ustr).dimensions
    try:
        if c["route"] == "add":
            reg.add(n, want, libdim, prefixable=c["prefixable"])
        elif c["route"] == "define_unit-tuple":
            define_unit(n, (v, ustr), registry=reg, prefixable=c["prefixable"])
        elif c["route"] == "define_unit-quantity":
            define_unit(n, unyt_quantity(v, ustr, registry=reg), registry=reg, prefixable=c["prefixable"])
        elif c["route"] == "add+modify-float":
            reg.add(n, 7.0, libdim, prefixable=c["prefixable"])
            Unit("k" + n if c["prefixable"] else n, registry=reg)
            Unit(n, registry=handle), Unit(n + "**2", registry=handle)
            reg.modify(n, want)
        else:
            reg.add(n, 7.0, D.time, prefixable=c["prefixable"])
            Unit(n, registry=handle), Unit(n + "/s", registry=reg)
            reg.modify(n, unyt_quantity(v, ustr, registry=reg))
    except Exception as e:
        out.append((f"C02:definition-raises:{c['route']}:{type(e).__name__}", {"case": c, "error": str(e)[:160]}))
        return out
    part.nt((c["reg"], c["route"], n, c["prefixable"]))
    PV = {"k": 1e3, "M": 1e6, "m": 1e-3}
    for k_probe, tmpl in enumerate(c["order"]):
        probe = tmpl.format(n=n)
        part.ev()
        reg_ = reg if k_probe % 2 == 0 else handle  # every other probe is read through the shallow copy
        # expected scale / dimension from the definition and the independent table
        if tmpl in ("kpc", "Mpc", "pc", "km", "kg", "cm", "dam"):
            es, ed, _ = R.atom(probe)
            es = float(es)
            tol = 1e-6  # table-row accuracy is judged elsewhere; here: not disturbed by the new symbol (factors of (1+z), 1e3, ...)
        else:
            tol = 1e-12
            pre = tmpl[0] if tmpl[0] in PV and tmpl[1:].startswith("{n}") else ""
            if pre and not c["prefixable"]:
                expect_unknown = True
            else:
                expect_unknown = False
            base = want * PV.get(pre, 1.0)
            if tmpl.endswith("**2"):
                es, ed = base * base, T.dpow(dim, 2)
            elif tmpl.endswith("/s"):
                es, ed = base, T.ddiv(dim, T.TIME)
            elif tmpl.startswith("kpc/M"):
                if not c["prefixable"]:
                    expect_unknown = True
                es, ed = float(R.atom("kpc")[0]) / (want * 1e6), T.ddiv(T.LENGTH, dim)
                tol = 1e-6
            elif tmpl.startswith("sqrt"):
                es, ed = want**0.5, T.dpow(dim, T.Fr(1, 2))
            else:
                es, ed = base, dim
            if expect_unknown:
                try:
                    u = Unit(probe, registry=reg_)
                    # a name like 'mq' may legitimately read as prefix+symbol of a *default* unit; only same-dimension hits are wrong
                    if R.dimvec_of(u.dimensions) == ed and abs(float(u.base_value) / es - 1) < 1e-9:
                        out.append((f"C02:prefix-accepted-on-nonprefixable-user-symbol:{c['route']}", {"case": c, "probe": probe}))
                except Exception:
                    pass
                continue
        try:
            u = Unit(probe, registry=reg_)
        except Exception as e:
            out.append((f"C02:user-symbol-unresolvable:{c['route']}:{tmpl}", {"case": c, "probe": probe, "error": f"{type(e).__name__}: {e}"[:160]}))
            continue
        gs, gd = float(u.base_value), R.dimvec_of(u.dimensions)
        if gd != ed or abs(gs / es - 1) > tol:
            kind = "default-name-disturbed" if tmpl in ("kpc", "Mpc", "pc", "km", "kg", "cm", "dam") else "user-symbol-scale"
            out.append((f"C02:{kind}:{c['route']}:{c['reg'] if c['reg'] == 'plain' else 'non-mks-registry'}", {"case": {k: (list(x) if isinstance(x, tuple) else x) for k, x in c.items()},
                                                                   "probe": probe, "got": [gs, T.dim_name(gd)], "want": [es, T.dim_name(ed)]}))
            break
    return out


def part_defined(payload):
    known = core.Known("C02")
    part = core.Part()
    core.hyp_explore(part, known, defined_case(), _case_defined, payload["n"], payload["seed"], label="C02:defined")
    return part


# ---------------------------------------------------------------- driver
def run(ctx):
    ctx.rule = (
        "A: every documented name (exhaustive) vs hand-written definition table; B: x.to(u2) over "
        "same-dimension pairs of canonical (prefix x symbol) names (quick: seeded sample, thorough: all); "
        "C: Hypothesis-generated compound expressions (1-6 factors, rational exponents, coefficients, "
        "sqrt, parentheses, custom-registry units) vs exact evaluator and conversion to a constructed "
        "commensurable partner; D: user-defined symbols through add / define_unit (tuple, quantity) / modify (float, quantity) in "
        "registries with plain, built-in non-MKS and custom unit systems, probed alone, prefixed and in compounds in random order "
        "together with default names (kpc, Mpc, km, cm, ...) that must not be disturbed. non-trivial = distinct (prefix,base) names + distinct unit pairs + "
        "distinct expression shapes with >=2 atoms or parentheses"
    )
    ctx.assumptions = [
        "definition table vf/oracle/table.py is hand-written from SI/NIST/IAU/CODATA; class tolerances X=1e-7, M=1e-6, G=1e-4, A=1e-3, S=snapshot",
        "compound expressions are judged against products of the library's own atomic scales (1e-12 per atom) so table-row findings do not mask evaluator errors",
        "magnitudes beyond 1e+-280 are excluded (float overflow), counted as excluded_range",
    ]
    ctx.merge(part_names({}))
    # pairs
    canon = _canon_units()
    by_dim = {}
    for name, p, b in canon:
        by_dim.setdefault(T.ROWS[b]["dim"], []).append(name)
    pairs = []
    for d, ns in by_dim.items():
        for a in ns:
            for b in ns:
                pairs.append((a, b))
    total_pairs = len(pairs)
    if ctx.quick:
        import random  # deterministic sub-sampling of a finite product, keyed by VERIF_SEED

        rnd = random.Random(ctx.seed)
        pairs = rnd.sample(pairs, min(len(pairs), 24000))
    ctx.extra["pairs_total"] = total_pairs
    ctx.extra["pairs_run"] = len(pairs)
    ctx.merge(core.pmap(MOD, "part_pairs", [{"pairs": sh} for sh in core.shards(pairs, 16)]))
    n = ctx.pick(4000, 80000)
    k = 16
    ctx.merge(core.pmap(MOD, "part_compounds", [{"n": n // k, "seed": ctx.seed * 1000 + i} for i in range(k)]))
    n2 = ctx.pick(1600, 32000)
    ctx.merge(core.pmap(MOD, "part_defined", [{"n": n2 // k, "seed": ctx.seed * 1000 + 500 + i} for i in range(k)]))
    ctx.exhaustive = False


def replay(ctx, data):
    d = data["detail"]
    if "case" in d:
        ast, pm, style, custom = d["case"]
        case = (G.ast_from_json(ast), pm, style, tuple(custom) if custom else None)
        for key, det in _case_compound(case, ctx):
            ctx.violation(key, det)
    ctx.merge(part_names({}))
