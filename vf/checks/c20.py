"""C20 -- the unit-string interface is total, canonical and re-readable.

(a) grammar-generated valid expressions: equivalent spellings (spacing, **-1 vs 1/, float vs
    rational exponents, unicode vs ASCII signs) must give equal units;
(b) printer-derived strings: str()/repr() of units produced by unit arithmetic, of every atomic
    and prefixed symbol, in default and custom registries, must parse back to an equal unit
    (dimension, offset, scale) and -- without a numeric coefficient -- to the identical
    expression and hash; the same through pickle;
(c) malformed strings (token-level mutations, hazard tokens, non-vocabulary Python constructs):
    the outcome is a Unit or UnitParseError, nothing else escapes; constructs outside the
    vocabulary (calls other than sqrt, subscripts, attributes, comparisons, lambdas, ...) are
    refused; an audit hook and canaries watch for any effect outside the parser;
(d) thorough tier: coverage-guided atheris campaign on Unit(str) with the same oracle.
Numeric power towers can wedge CPython's big-integer code; generators cap them (counted as
excluded_resource) and a parent watchdog kills wedged workers: a timeout is inconclusive.
"""

import os
import pickle
import re
import sys
import subprocess
from fractions import Fraction as Fr

import numpy as np
from hypothesis import strategies as st

from vf import core
from vf.gen import units as G
from vf.oracle import resolve as R
from vf.oracle import table as T

MOD = "vf.checks.c20"
CANARY = "/tmp/vf_c20_canary_file"
HAZARD = ["+", "-", "^", "%", "//", "@", ",", ";", "=", "<", ">", "==", "!=", "lambda", "if", "else", "for", "in", "not", "and", "or", "is", ":", ":=", ".", "..", "...",
          "[", "]", "{", "}", "(", ")", "'", '"', "f'", "\\", "\x00", "\t", "\n", "\r", "\x0b", "#", "$", "!", "?", "`", "~", "|", "&", "<<", ">>", "None", "True", "False",
          "print", "eval", "exec", "open", "__import__", "globals", "getattr", "__class__", "__dict__", "Symbol", "Integer", "Float", "Rational", "sqrt", "sin", "exp", "pi",
          "E", "I", "oo", "zoo", "nan", "inf", "1e400", "0x10", "1_0", "1j", "2L", "é", "☉", "⊕", "²", "·", "Δ", "°", "µ", "Ω", "Å", "​", "﻿", "١", "ｍ", "a" * 300,
          "**", "*", "/", "1", "0", "2", ".5", "m", "s", "kg", " ", "1//0", "[5]", "{}[m]", "(1//0)", ".nope", "[0]", "()"]
NONVOCAB = [
    ("subscript", "[m,s][0]"), ("subscript", "(m,s)[1]"), ("subscript", "'m'[0]"), ("subscript", "{1:m}[1]"), ("call:Integer", "Integer(3)*m"), ("call:Float", "Float(2.5)*m"),
    ("call:Rational", "Rational(1,2)*m"), ("call:Symbol", "Symbol('m')"), ("call:Symbol-empty-name", "Symbol('')"), ("call:Symbol-empty-name", "Symbol('')*m"), ("call:Symbol", "Symbol('s', positive=True)*m"), ("call:abs", "abs(-1)*m"), ("call:len", "len('aa')*m"),
    ("call:print", "m*print(1)"), ("call:import", "__import__('os').getcwd()"), ("call:open", f"open('{CANARY}','w')"), ("call:eval", "eval('1')*m"), ("call:exec", "exec('x=1')"),
    ("call:getattr", "getattr(m,'name')"), ("call:type", "type(m)"), ("call:max", "max(1,2)*m"), ("call:sin", "sin(1)*m"), ("call:unit", "m(2)"), ("call:sqrt-number", "sqrt(4)*m*0+m"),
    ("attribute", "m.is_real"), ("attribute", "m.__class__"), ("attribute", "(1).__class__"), ("attribute", "m.args"), ("attribute", "().__class__.__bases__"),
    ("ternary", "m if 1 else s"), ("lambda", "lambda: m"), ("lambda", "(lambda: m)()"), ("comprehension", "[x for x in (1,2)]"), ("comparison", "m<s"), ("comparison", "m==s"),
    ("boolean", "m and s"), ("boolean", "not m"), ("boolean", "m or s"), ("string", "'m'"), ("string", "f'{1}'"), ("string", '"m"*2'), ("walrus", "(x:=2)*m"),
    ("operator", "m@s"), ("operator", "m%s"), ("operator", "m//s"), ("operator", "m^2"), ("operator", "m+s"), ("operator", "m-s"), ("operator", "m|s"), ("operator", "m&s"),
    ("operator", "~m"), ("operator", "m<<2"), ("tuple", "m,s"), ("statement", "m;s"), ("statement", "m=s"), ("dict", "{1:2}"), ("set", "{1,2}"), ("call:dunder", "m.__mul__(s)"),
    ("dunder-namespace", "__builtins__['abs'](-1)*m"), ("dunder-namespace", "__builtins__['len']('aa')*m"), ("dunder-namespace", f"__builtins__['open']('{CANARY}','w')"),
    ("dunder-namespace", "__builtins__['__import__']('os').getcwd()"), ("dunder-namespace", "__builtins__['eval']('1')*m"), ("dunder-namespace", "__builtins__['max'](1,2)*m"),
    ("dunder-namespace", "m*__builtins__['int'](2)"), ("dunder-namespace", "__builtins__.get('abs')(-2)*m"),
    ("call:sympify", "sympify('m')"), ("call:globals", "globals()"), ("call:system", "__import__('os').system('true')"), ("ellipsis", "..."), ("none", "None"),
]


# strings that tokenize and compile but raise while the parser *evaluates* them: the exception type must still be UnitParseError
EVAL_ERRORS = ["1//0", "m*(1//0)", "1%0", "m**(1//0)", "'m'[1]", "(m,s)[2]", "[m,s][5]*kg", "{}[m]", "{1:2}[3]", "m.nope", "int('a')", "None+1", "(1).real()", "1/0", "0**-1",
               "m**(1/0)", "sqrt()", "sqrt(1,2,3)", "Symbol()", "Rational(1,0)", "Integer('a')", "Float('x')", "m[0]", "m()", "2(3)", "m**'a'", "'a'*m", "m*'a'", "-'a'", "[]*m", "()**m",
               "m**[1]", "m**(1,2)", "{}*m", "m/{}", "m**None", "None*m", "m*None", "True/0", "divmod(1,0)", "[][0]", "()[0]", "''[0]", "range(3)[5]", "m.is_real()", "m.subs()", "1 .foo",
               "Symbol('a','b','c')", "Symbol(1)", "Rational('x')", "sqrt('x')", "sqrt(m, evaluate=False)", "Integer(1,2,3)", "float('x')*m", "iter(1)", "next(1)", "1 in 2", "m<1<'a'"]


def resource_risky(s):
    """numeric power towers / huge exponents can wedge the interpreter in big-integer code"""
    if len(s) > 400:
        return True
    if re.search(r"\d{7,}", s):
        return True
    if re.search(r"\*\*\s*[\(\s+-]*\d[\d_.eE+-]*[\)\s]*\*\*", s):
        return True
    if s.count("**") >= 3:
        return True
    if re.search(r"\*\*\s*[\(\s+-]*\d{4,}", s) or re.search(r"[eE][+-]?\d{3,}", s):
        return True
    # any numeric literal right after ** whose magnitude is large (0.5**1e32 wedges sympy's Rational power)
    for m in re.finditer(r"\*\*\s*[\(\s+-]*(\d[\d_]*\.?[\d_]*(?:[eE][+-]?\d+)?|\.\d+(?:[eE][+-]?\d+)?)", s):
        try:
            if abs(float(m.group(1).replace("_", ""))) > 300:
                return True
        except ValueError:
            return True
    # numeric literals with a two-digit decimal exponent anywhere (1e32 as a base of a later ** or as an exponent of a product)
    if "**" in s and re.search(r"\d[eE][+-]?\d{2,}", s):
        return True
    return False


def facts(u):
    try:
        dv = R.dimvec_of(u.dimensions)
    except TypeError:
        dv = ("irrational-exponent", str(u.dimensions))  # m**(2**(2/3)/2): not a rational dimension vector; compared as printed
    return float(u.base_value), dv, float(u.base_offset)


def same(a, b, tol=1e-12):
    fa, fb = facts(a), facts(b)
    if fa[1] != fb[1]:
        return False
    if fa[2] != fb[2] and abs(fa[2] - fb[2]) > 1e-12 * max(abs(fa[2]), abs(fb[2])):
        return False
    if fa[0] == fb[0]:
        return True
    if fa[0] == 0 or fb[0] == 0 or not (np.isfinite(fa[0]) and np.isfinite(fb[0])):
        return False
    return abs(fa[0] / fb[0] - 1) <= tol


# ---------------------------------------------------------------- effect monitor
_EVENTS = []
_WATCH = [False]
_HOOKED = [False]
ALLOWED_EVENTS = {"compile", "exec", "object.__getattr__", "object.__setattr__", "sys._getframe", "builtins.id", "code.__new__", "function.__new__", "sys._getframemodulename",
                  "marshal.loads", "marshal.load"}


def _hook(event, args):
    if _WATCH[0] and event not in ALLOWED_EVENTS:
        if event == "import":
            mod = str(args[0])
            if mod.split(".")[0] in ("sympy", "mpmath", "unyt", "numpy", "tokenize", "token", "keyword", "re", "ast", "unicodedata", "encodings", "codecs", "collections", "fractions",
                                     "decimal", "_decimal", "numbers", "math", "cmath", "itertools", "functools", "operator", "string", "io", "types", "typing", "warnings", "traceback", "linecache",
                                     "builtins", "sys", "_ast", "textwrap", "inspect", "enum", "abc", "copy", "random", "gmpy2", "flint", "_pydecimal", "contextlib", "threading"):
                return
        if event in ("open",) and isinstance(args[0], str) and (args[0].endswith((".py", ".pyc")) or "site-packages" in args[0] or "/lib/python" in args[0] or "/repo/" in args[0]
                                                                 or args[0].startswith("<")):
            return  # source lookups while an error message / traceback is formatted ('<string>' is the parsed text itself)
        _EVENTS.append((event, repr(args)[:120]))


def watch_parse(s, registry=None):
    """Unit(s) under the audit monitor -> (outcome, value, events)"""
    from unyt import Unit
    from unyt.exceptions import UnitParseError

    if not _HOOKED[0]:
        sys.addaudithook(_hook)
        _HOOKED[0] = True
    del _EVENTS[:]
    _WATCH[0] = True
    try:
        try:
            u = Unit(s, registry=registry)
            out = ("unit", u)
        except UnitParseError:
            out = ("UnitParseError", None)
        except RecursionError:
            out = ("resource", None)
        except MemoryError:
            out = ("resource", None)
        except BaseException as e:  # noqa: B036 - the claim is about *any* escaping exception type
            out = ("escaped", e)
    finally:
        _WATCH[0] = False
    return out[0], out[1], list(_EVENTS)


def totality(s, part, out, kind):
    """the clauses every string must satisfy"""
    import builtins

    if resource_risky(s):
        part.count("excluded_resource")
        return None
    part.ev()
    nb = len(dir(builtins))
    oc, val, events = watch_parse(s)
    if oc == "escaped":
        esc = core.escaped_from_library(val) or "outside-library"
        out.append((f"C20:escaped:{type(val).__name__}@{esc.split('@')[-1]}", {"string": s, "kind": kind, "error": str(val)[:160]}))
    elif oc == "unit":
        from unyt import Unit

        if not isinstance(val, Unit):
            out.append(("C20:result-not-a-unit", {"string": s, "got": type(val).__name__}))
    if events:
        out.append((f"C20:side-effect:{events[0][0]}", {"string": s, "events": events[:4]}))
    if os.path.exists(CANARY):
        os.remove(CANARY)
        out.append(("C20:side-effect:canary-file-created", {"string": s}))
    if len(dir(builtins)) != nb:
        out.append(("C20:side-effect:builtins-changed", {"string": s}))
    return oc, val


# ---------------------------------------------------------------- (a) spellings
def variants(ast, draw_int):
    """equivalent spellings of one expression"""
    base = R.render(ast, 0)
    v = [base, R.render(ast, 1), base.replace("*", " * ").replace(" *  * ", "**"), base.replace("/", " / "), "(" + base + ")", " " + base + " ", base.replace("**", " ** "),
         "1*" + base, base + "*1", base + "/1", "((" + base + "))"]
    uni = base
    for a, b in (("um", "µm"), ("um", "μm"), ("ohm", "Ω"), ("angstrom", "Å"), ("degC", "°C"), ("degF", "°F"), ("percent", "%"), ("degree", "°")):
        if re.search(rf"(?<![A-Za-z_]){a}(?![A-Za-z_])", uni):
            v.append(re.sub(rf"(?<![A-Za-z_]){a}(?![A-Za-z_])", b, uni))
    return v


def _case_valid(case, part):
    from unyt import Unit

    ast, k = case
    out = []
    vs = variants(ast, k)
    r0 = totality(vs[0], part, out, "valid")
    if r0 is None:
        return out
    if r0[0] != "unit":
        if r0[0] == "UnitParseError":
            out.append(("C20:valid-expression-rejected", {"string": vs[0]}))
        return out
    u0 = r0[1]
    s0 = float(u0.base_value)
    if not np.isfinite(s0) or s0 == 0:
        part.count("excluded_range")
        return out
    nt = R.n_atoms(ast) >= 2 or any(not c.isascii() for c in vs[0])
    for v in vs[1:]:
        r = totality(v, part, out, "valid-variant")
        if r is None:
            continue
        if r[0] != "unit":
            out.append((f"C20:spelling-variant-rejected:{_vkind(vs[0], v)}", {"canonical": vs[0], "variant": v}))
            continue
        if not same(r[1], u0, 1e-12):
            out.append((f"C20:spelling-variants-differ:{_vkind(vs[0], v)}", {"canonical": vs[0], "variant": v, "a": facts(u0), "b": facts(r[1])}))
    if nt:
        part.nt(("valid", tuple(sorted(T.dim_name(R.atom(a)[1]) for a in G.atoms_of(ast))), len(vs)))
    out += roundtrip(u0, part, vs[0])
    if len(part.samples) < 2:
        part.sample({"canonical": vs[0], "variants": vs[1:5], "str": str(u0), "repr": repr(u0)})
    return out


def _vkind(a, b):
    if any(not c.isascii() for c in b) and not any(not c.isascii() for c in a):
        return "unicode"
    if a.replace(" ", "") == b.replace(" ", ""):
        return "spacing"
    if b.startswith("(") or b.endswith(")") and not a.endswith(")"):
        return "parentheses"
    if "1*" in b or "*1" in b or "/1" in b:
        return "unit-factor"
    return "exponent-style"


# ---------------------------------------------------------------- (b) printer round trip
def roundtrip(u, part, origin, registry=None):
    from unyt import Unit

    out = []
    for nm, text in (("str", str(u)), ("repr", repr(u))):
        if text == "(dimensionless)":
            text2 = "dimensionless"
        else:
            text2 = text
        if resource_risky(text2):
            part.count("excluded_resource")
            continue
        part.ev()
        try:
            v = Unit(text2, registry=registry if registry is not None else u.registry)
        except Exception as e:
            out.append((f"C20:printed-unit-does-not-parse:{nm}:{type(e).__name__}", {"origin": origin, "text": text}))
            continue
        if not same(v, u, 1e-12):
            out.append((f"C20:printed-unit-parses-to-other-unit:{nm}", {"origin": origin, "text": text, "unit": facts(u), "reparsed": facts(v)}))
            continue
        coeff = u.expr.as_coeff_Mul()[0]
        if coeff == 1 and u.expr != 1:
            micro = ":micro-sign" if ("µ" in str(u.expr) or "μ" in str(u.expr)) else ""
            if v.expr != u.expr:
                out.append((f"C20:reparsed-expression-differs:{nm}{micro}", {"origin": origin, "text": text, "expr": str(u.expr), "reparsed": str(v.expr)}))
            elif hash(v) != hash(u):
                out.append((f"C20:reparsed-hash-differs:{nm}", {"origin": origin, "text": text}))
    # persistence by pickle stores str(units)
    try:
        w = pickle.loads(pickle.dumps(u))
        if not same(w, u, 1e-12):
            out.append(("C20:pickle-changes-unit", {"origin": origin, "unit": facts(u), "restored": facts(w)}))
    except Exception as e:
        out.append((f"C20:pickle-fails:{type(e).__name__}", {"origin": origin, "str": str(u)}))
    # ... and the text an *array* persists (its own pickling code path): it must denote the unit that was written, also when
    # the registry gives a default symbol another size
    try:
        from unyt import unyt_array

        part.ev()
        a = unyt_array(np.array([1.0, 2.0]), u)
        b = pickle.loads(pickle.dumps(a))
        if not same(b.units, u, 1e-12):
            out.append(("C20:array-pickle-changes-unit", {"origin": origin, "unit": facts(u), "restored": facts(b.units), "text": str(u)}))
    except Exception as e:
        out.append((f"C20:array-pickle-fails:{type(e).__name__}", {"origin": origin, "str": str(u)}))
    return out


def _case_arith(case, part):
    """units obtained from unit arithmetic (incl. simplify) and printed"""
    from unyt import Unit
    from unyt.exceptions import InvalidUnitOperation
    from unyt.unit_registry import UnitRegistry

    asts, p, custom, do_simplify, history = case[:5]
    mode2 = case[5] if len(case) > 5 else 0
    out = []
    reg = None
    if custom:
        reg = UnitRegistry()
        reg.add("code_length", 3.0857e19, Unit("m").dimensions, prefixable=True)
        reg.add("code_mass", 1.989e40, Unit("kg").dimensions)
        reg.modify("yr", 3.0e7)  # a default symbol given another size: printed text is read against this registry
        reg.modify("Zsun", 0.02)
    texts = [R.render(a) for a in asts]
    if any(resource_risky(t) for t in texts):
        return out
    try:
        u, v, w = (Unit(t, registry=reg) for t in texts)
        if custom:
            u = u * Unit("code_length", registry=reg) / Unit("code_mass", registry=reg) ** 2 * Unit("yr", registry=reg) / Unit("Zsun", registry=reg)
        x = u * v / w
        s0 = float(x.base_value)
        if not np.isfinite(s0) or s0 == 0 or abs(np.log10(abs(s0))) > 250:
            part.count("excluded_range")  # the scale under/overflowed in float before any printing: 0.0**-1 etc. is not the claim's subject
            return out
        if p != 1:
            x = x ** (float(p) if p.denominator in (2, 4) else p)
        if history:
            # print, simplify in place, print again: the text must follow the object
            before = str(x)
            x.simplify()
            if str(x) != str(Unit(x.expr, registry=reg)):
                out.append(("C20:printed-text-stale-after-simplify", {"terms": texts, "before": before, "after": str(x), "expr": str(x.expr)}))
        elif do_simplify:
            x = (u * v / w).simplify()
        if mode2 in (1, 2, 3):
            # a numeric coefficient first (from simplify folding prefixes, from a quantity, from a string), a power afterwards
            from unyt import unyt_quantity

            y = (u * v / w).simplify() if mode2 == 1 else (u / w) * Unit(unyt_quantity([1000.0, 2.0, 0.5, 10.0, 3.75, 1e-3][len(texts[0]) % 6], "m", registry=reg), registry=reg) if mode2 == 2 \
                else Unit(f"{[1000, 2, 0.5, 10, 7, 250][len(texts[1]) % 6]}*({texts[0]})", registry=reg) * v
            x = y ** (float(p) if p.denominator in (2, 4) else p) if p != 1 else y
            part.count("coefficient-then-power units")
    except InvalidUnitOperation:
        return out
    s = float(x.base_value)
    if not np.isfinite(s) or s == 0 or abs(np.log10(abs(s))) > 250:
        part.count("excluded_range")
        return out
    part.nt(("arith", len({a for t in asts for a in G.atoms_of(t)}), str(p), custom, do_simplify, history))
    out += roundtrip(x, part, "*".join(texts) + f"**{p}", registry=reg)
    return out


@st.composite
def arith_case(draw):
    asts = [draw(G.unit_ast(max_factors=2, mild=True, coeff=False)) for _ in range(3)]
    p = draw(st.sampled_from([Fr(1), Fr(1), Fr(2), Fr(-1), Fr(1, 2), Fr(1, 3), Fr(3, 2), Fr(-2, 3), Fr(5, 6), Fr(1, 4)]))
    return (asts, p, draw(st.integers(0, 4)) == 0, draw(st.booleans()), draw(st.integers(0, 3)) == 0, draw(st.sampled_from([0, 0, 1, 2, 3])))


def part_atomic(payload):
    """str/repr round trip of every atomic and prefixed symbol"""
    from unyt import Unit

    known = core.Known("C20")
    part = core.Part()
    for name in payload["names"]:
        try:
            u = Unit(name)
        except Exception:
            continue
        part.nt(("atomic", name))
        for key, det in roundtrip(u, part, name):
            core.classify(known, part, key, det)
        # the same text handed over as UTF-8 bytes (what an HDF5 attribute returns) denotes the same unit
        for text in {name, str(u), repr(u)}:
            if text == "(dimensionless)":
                continue
            part.ev()
            try:
                vb = Unit(text.encode("utf-8"))
                vnp = Unit(np.bytes_(text.encode("utf-8")))
            except Exception as e:
                core.classify(known, part, f"C20:bytes-input:{'non-ascii' if not text.isascii() else 'ascii'}:{type(e).__name__}", {"text": text, "error": str(e)[:120]})
                continue
            if not (same(vb, u, 1e-12) and same(vnp, u, 1e-12)):
                core.classify(known, part, f"C20:bytes-input-denotes-other-unit:{'non-ascii' if not text.isascii() else 'ascii'}", {"text": text, "unit": facts(u), "from_bytes": facts(vb)})
        # large but legal exponents: the scale may saturate, the constructor may refuse with UnitParseError -- nothing else escapes
        if sum(map(ord, name)) % 5 == 0:
            tout = []
            for e_ in (14, 42, 120, 300, -14, -42, -120, -300):
                totality(f"{name}**{e_}", part, tout, "large-exponent")
                totality(f"1/{name}**{abs(e_)}", part, tout, "large-exponent")
            for key, det in tout:
                core.classify(known, part, key + ":large-exponent", det)
        if float(u.base_offset) != 0.0:
            # units with a zero point reached through arithmetic that leaves them what they are: factors of the bare / named
            # dimensionless unit on either side, power one, a number times an array in that unit
            import numpy as _np
            from unyt import unyt_array

            forms = [("Unit()*u", lambda: Unit() * u), ("u*Unit()", lambda: u * Unit()), ("Unit('dimensionless')*u", lambda: Unit("dimensionless") * u), ("u/Unit()", lambda: u / Unit()),
                     ("u**1", lambda: u**1), ("(Unit()*u)*Unit()", lambda: (Unit() * u) * Unit()), ("(2.0*array).units", lambda: (2.0 * unyt_array([10.0, 20.0], u)).units),
                     ("(array*2.0).units", lambda: (unyt_array([10.0, 20.0], u) * 2.0).units), ("(array/2.0).units", lambda: (unyt_array([10.0, 20.0], u) / 2.0).units),
                     ("np.multiply(3.0, array).units", lambda: _np.multiply(3.0, unyt_array([10.0, 20.0], u)).units), ("(-array).units", lambda: (-unyt_array([10.0, 20.0], u)).units),
                     ("u.copy()", lambda: u.copy()), ("Unit(u)", lambda: Unit(u))]
            for fname, mk in forms:
                try:
                    x = mk()
                except Exception:
                    part.count("offset-unit arithmetic form refused")
                    continue
                part.nt(("offset-arith", name, fname))
                for key, det in roundtrip(x, part, f"{fname} with u={name}"):
                    core.classify(known, part, key + ":offset-unit-arithmetic:" + fname, det)
    return part


# ---------------------------------------------------------------- (c) malformed
@st.composite
def malformed(draw):
    ast = draw(G.unit_ast(max_factors=3, mild=True))
    s = R.render(ast, draw(st.integers(0, 1)))
    toks = re.findall(r"\*\*|[A-Za-z_µμÅΩ°%]+|\d+\.?\d*(?:[eE][+-]?\d+)?|\S", s)
    n = draw(st.integers(1, 4))
    for _ in range(n):
        op = draw(st.sampled_from(["drop", "dup", "swap", "insert", "replace", "insert", "replace"]))
        if not toks:
            toks = ["m"]
        i = draw(st.integers(0, len(toks) - 1))
        if op == "drop":
            toks.pop(i)
        elif op == "dup":
            toks.insert(i, toks[i])
        elif op == "swap" and len(toks) > 1:
            j = draw(st.integers(0, len(toks) - 1))
            toks[i], toks[j] = toks[j], toks[i]
        elif op == "insert":
            toks.insert(i, draw(st.sampled_from(HAZARD)))
        else:
            toks[i] = draw(st.sampled_from(HAZARD))
    sep = draw(st.sampled_from(["", "", " "]))
    return sep.join(toks)


def _case_malformed(s, part):
    out = []
    r = totality(s, part, out, "malformed")
    if r is not None:
        part.count(f"malformed outcome: {r[0]}")
        if re.search(r"[A-Za-z]", s) and len(s) > 2:
            part.nt(("malformed", r[0], re.sub(r"[A-Za-z0-9_. ]+", "a", s)[:24]))
    return out


def part_nonvocab(payload):
    known = core.Known("C20")
    part = core.Part()
    # whatever else sits in the parser's evaluation namespace after earlier parses (read as data): none of it is vocabulary
    import unyt._parsing as P_

    extra = []
    for key in sorted(k for k in getattr(P_, "global_dict", {}) if k not in ("Symbol", "Integer", "Float", "Rational", "sqrt")):
        extra += [("namespace-entry", f"{key}['abs'](-1)*m"), ("namespace-entry", f"{key}['len']('aa')*m"), ("namespace-entry", f"m*{key}['int'](3)")]
    for kind, s in NONVOCAB + extra + [(k, t.replace("m", "km").replace("s)", "hr)")) for k, t in NONVOCAB[:20]]:
        out = []
        r = totality(s, part, out, "non-vocabulary")
        if r is not None and r[0] == "unit":
            out.append((f"C20:non-vocabulary-construct-evaluated:{kind}", {"string": s, "result": repr(r[1])}))
        part.nt(("nonvocab", kind, s))
        for key, det in out:
            core.classify(known, part, key, det)
    for s in EVAL_ERRORS + [e.replace("m", "km") + "*s" for e in EVAL_ERRORS[:20]]:
        out = []
        totality(s, part, out, "evaluation-error")
        part.nt(("evalerr", s))
        for key, det in out:
            core.classify(known, part, key, det)
    for s in HAZARD + [a + b for a in HAZARD[:40] for b in ("m", "*m", "m*")] + [b + a for a in HAZARD[:40] for b in ("m", "m*", "m**")]:
        out = []
        totality(s, part, out, "hazard")
        for key, det in out:
            core.classify(known, part, key, det)
    return part


def part_random(payload):
    known = core.Known("C20")
    part = core.Part()
    n = payload["n"]
    core.hyp_explore(part, known, st.tuples(G.unit_ast(max_factors=4, mild=True), st.integers(0, 3)), _case_valid, n, payload["seed"], label="C20:valid")
    core.hyp_explore(part, known, arith_case(), _case_arith, n, payload["seed"] + 1, label="C20:arith")
    core.hyp_explore(part, known, malformed(), _case_malformed, 2 * n, payload["seed"] + 2, label="C20:malformed")
    return part


# ---------------------------------------------------------------- (d) atheris
def run_fuzz(ctx, seconds):
    script = os.path.join(core.VERIF, "vf", "fuzz", "fuzz_unit_string.py")
    work = os.path.join(core.VERIF, "fuzz-work")
    os.makedirs(os.path.join(work, "corpus"), exist_ok=True)
    os.makedirs(os.path.join(work, "artifacts"), exist_ok=True)
    try:
        import atheris  # noqa: F401
    except Exception:
        ctx.notes.append("atheris not importable: fuzz campaign skipped")
        return
    seeds = os.path.join(core.VERIF, "vf", "fuzz", "seeds")
    env = dict(os.environ)
    import time as _time

    t_end = _time.time() + seconds
    execs, rounds, hangs, rc = 0, 0, [], 0
    outputs = []
    # libFuzzer stops at the first input that exceeds -timeout (a wedged big-number power is a liveness matter, not a violation
    # of the claim): such inputs are moved aside, reported, and the campaign is resumed on the same corpus until the budget is used
    while _time.time() < t_end - 5 and rounds < 40:
        left = int(t_end - _time.time())
        cmd = [script, os.path.join(work, "corpus"), seeds, f"-max_total_time={left}", "-timeout=10", "-rss_limit_mb=4096", f"-seed={ctx.seed + rounds}", "-max_len=96",
               f"-artifact_prefix={work}/artifacts/", f"-dict={os.path.join(core.VERIF, 'vf', 'fuzz', 'unit.dict')}", "-print_final_stats=1"]
        try:
            p = subprocess.run(cmd, capture_output=True, text=True, env=env, timeout=left + 120)
        except subprocess.TimeoutExpired:
            ctx.notes.append("fuzz process did not stop by itself and was killed")
            break
        rounds += 1
        txt = p.stdout + p.stderr
        outputs.append(txt)
        m = re.search(r"stat::number_of_executed_units:\s*(\d+)", txt[-3000:])
        execs += int(m.group(1)) if m else 0
        rc = p.returncode
        if any(l.startswith("VF-VIOLATION ") for l in txt.splitlines()):
            break
        if p.returncode != 0 and ("timeout" in txt[-3000:].lower() or "ALARM" in txt[-3000:]):
            for f in sorted(os.listdir(os.path.join(work, "artifacts"))):
                if f.startswith("timeout-"):
                    try:
                        hangs.append(open(os.path.join(work, "artifacts", f), "rb").read()[:96].decode("utf-8", "replace"))
                    except Exception:
                        pass
                    os.replace(os.path.join(work, "artifacts", f), os.path.join(work, "artifacts", "seen-" + f))
            continue
        if p.returncode != 0:
            ctx.notes.append("fuzz campaign ended abnormally: " + txt[-300:])
            break
    ctx.evaluations += execs
    ctx.extra["fuzz"] = {"executions": execs, "seconds": seconds, "rounds": rounds, "returncode": rc, "inputs_that_exceeded_10s": hangs[:10]}
    if hangs:
        ctx.notes.append(f"{len(hangs)} fuzz input(s) exceeded the 10 s per-input limit (resource hang, liveness is not decided here); the campaign was resumed after each")
    for txt in outputs:
        for line in txt.splitlines():
            if line.startswith("VF-VIOLATION "):
                key, _, payload = line[len("VF-VIOLATION "):].partition(" :: ")
                ctx.violation(key, {"string": payload, "found_by": "atheris"})



def part_spelling_history(payload):
    """equivalent spellings in a registry whose symbols are re-scaled between two readings: whatever was read (and memoised)
    before, all spellings of one unit are equal afterwards, carry the registry's current scale, and their printed form re-reads
    to the same unit in that registry"""
    from unyt import Unit
    from unyt.exceptions import UnitParseError
    from unyt.unit_registry import UnitRegistry

    known = core.Known("C20")
    part = core.Part()
    groups = [["ohm", "Ω", "Ohm"], ["kohm", "kΩ"], ["angstrom", "Å", "Angstrom"], ["percent", "%"], ["degC", "°C", "celsius"], ["degF", "°F", "fahrenheit"], ["degree", "°", "deg"],
              ["um", "µm", "μm", "micrometer"], ["uohm", "µΩ", "μΩ"], ["mohm/s", "mΩ/s", "mΩ * s**-1"], ["angstrom**2", "Å**2", "Å * Å"], ["1/ohm", "Ω**-1", "ohm**(-1.0)"],
              ["year", "yr"], ["parsec", "pc"], ["kiloparsec", "kpc"], ["solar_mass", "Msun", "msun"], ["liter", "L", "litre"], ["light_year", "ly"], ["hour", "hr"]]
    for warm in (True, False):
        for factor in (3.0, 0.5):
            ref = UnitRegistry()
            for g in groups:
                reg = UnitRegistry()  # one registry per group: the expected scale is "fresh registry x factor"
                firsts = {}
                for sp in g:
                    try:
                        firsts[sp] = Unit(sp, registry=reg) if warm else None
                        Unit(sp, registry=ref)
                    except UnitParseError:
                        firsts[sp] = "unparsable"
                usable = [sp for sp in g if firsts[sp] != "unparsable"]
                if len(usable) < 2:
                    part.count("spelling group with fewer than two accepted spellings")
                    continue
                syms = sorted(str(a) for a in Unit(usable[0], registry=ref).expr.free_symbols)
                edited = []
                for sym in syms:
                    if sym in reg.lut:
                        try:
                            reg.modify(sym, float(reg.lut[sym][0]) * factor)
                            edited.append(sym)
                        except Exception:
                            pass
                if not edited:
                    part.count("spelling group whose symbols could not be re-scaled")
                    continue
                us = {}
                for sp in usable:
                    part.ev()
                    part.nt(("spelling-history", sp, warm, factor))
                    try:
                        us[sp] = Unit(sp, registry=reg)
                    except Exception as e:
                        core.classify(known, part, f"C20:spelling-after-edit:raises:{type(e).__name__}", {"spelling": sp, "edited": edited})
                u0 = us.get(usable[0])
                if u0 is None:
                    continue
                want = Unit(usable[0], registry=ref)
                # expected scale: every edited symbol enters with its exponent
                expo = {str(k): float(v) for k, v in Unit(usable[0], registry=ref).expr.as_powers_dict().items() if str(k) in edited}
                want_scale = float(want.base_value) * float(np.prod([factor ** e for e in expo.values()])) if expo else None
                for sp, u in us.items():
                    if not same(u, u0, 1e-12):
                        core.classify(known, part, "C20:spelling-variants-differ:after-registry-edit", {"first": usable[0], "variant": sp, "edited": edited, "read_before_edit": warm, "a": facts(u0), "b": facts(u)})
                    if want_scale and not u.base_offset and abs(float(u.base_value) / want_scale - 1) > 1e-12:
                        core.classify(known, part, "C20:spelling-after-edit:stale-scale", {"spelling": sp, "edited": edited, "read_before_edit": warm, "got": float(u.base_value), "want": want_scale})
                    for how, txt in (("str", str(u)), ("repr", repr(u))):
                        part.ev()
                        try:
                            back = Unit(txt, registry=reg)
                        except Exception as e:
                            core.classify(known, part, f"C20:printed-unit-does-not-parse:{how}:after-registry-edit", {"spelling": sp, "text": txt, "error": type(e).__name__})
                            continue
                        if not same(back, u, 1e-12):
                            core.classify(known, part, f"C20:printed-text-denotes-another-unit:{how}:after-registry-edit", {"spelling": sp, "text": txt, "edited": edited, "unit": facts(u), "re-read": facts(back)})
                if len(part.samples) < 2:
                    part.sample({"spellings": usable, "re-scaled": edited, "factor": factor, "read_before_edit": warm, "scales_after": [float(u.base_value) for u in us.values()]})
    return part


def run(ctx):
    ctx.rule = (
        "Hypothesis: valid expressions from the AST grammar over all table names (1-4 factors, rational/float exponents, coefficients) each in ~12 equivalent "
        "spellings; units from unit arithmetic (3 compounds, powers, simplify, print-simplify-print histories, custom registry) printed with str/repr and "
        "re-parsed, and pickled; token-level mutations (drop/dup/swap/insert/replace with ~110 hazard tokens); exhaustive: str/repr round trip of every "
        "atomic and prefixed name, a curated list of ~80 non-vocabulary Python constructs that must be refused, hazard tokens glued to names; 19 groups of equivalent spellings (unicode / ASCII / written-out) read in a registry before and after "
        "their symbols were re-scaled. Every parse "
        "runs under an audit hook with canaries. thorough adds a coverage-guided atheris campaign. non-trivial = valid expressions with >=2 atoms or a "
        "non-ASCII name; distinct arithmetic shapes; malformed strings that still contain a name (reach the transformer); every atomic name"
    )
    ctx.assumptions = [
        "termination is not decided: numeric power towers / huge exponents are capped in the generators (counted) and a watchdog kills wedged workers; a timeout is inconclusive",
        "audit events compile/exec/getattr and imports of sympy/stdlib parsing modules are the parser's own activity (measured on the valid corpus)",
        "scale equality rel 1e-12; units whose scale is 0/inf/nan are excluded",
    ]
    names = [n for n, _, _ in G.all_unit_names()]
    ctx.merge(core.pmap(MOD, "part_atomic", [{"names": sh} for sh in core.shards(names, 16)], timeout=ctx.pick(300, 900)))
    ctx.merge(core.pmap(MOD, "part_nonvocab", [{}], timeout=120))
    ctx.merge(core.pmap(MOD, "part_spelling_history", [{}], timeout=120))
    n = ctx.pick(1600, 16000)
    ctx.merge(core.pmap(MOD, "part_random", [{"n": n // 16, "seed": ctx.seed * 1000 + 10 * i} for i in range(16)], timeout=ctx.pick(600, 3600)))
    if not ctx.quick:
        run_fuzz(ctx, 600)


def replay(ctx, data):
    d = data["detail"]
    dd = d.get("detail", d) if isinstance(d, dict) else {}
    s = dd.get("string") or dd.get("text") or dd.get("canonical") or (d.get("case") if isinstance(d.get("case"), str) else None)
    out = []
    if s is not None:
        r = totality(s, ctx, out, "replay")
        if r and r[0] == "unit":
            out += roundtrip(r[1], ctx, s)
    for key, det in out:
        ctx.violation(key, det)
    ctx.merge(part_nonvocab({}))
