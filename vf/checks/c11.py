"""C11 -- persisted quantities and units come back meaning and behaving the same.

Generated objects (quantity / array / Unit; units from the table and generated compounds;
default and custom registries with added, prefixable, offset and *modified default* symbols and
a non-default unit system) are sent through every persistence route (pickle protocols 0-5,
copy, deepcopy, .copy(), Unit.copy(deep=), savetxt->loadtxt, Unit(str(u)), registry
to_json->from_json, nested containers).  Oracle: (1) immediately: same numbers/dtype/shape,
equal units, same str, same registry resolution of a probe set incl. user symbols; (2)
behavioural differential: a drawn battery of follow-up operations (angle-aware trig,
temperature and logarithmic guards, unit-system conversion incl. the registry's own default
system, conversion to custom units, arithmetic with the original, reductions) gives the same
outcome -- same value, equal unit, or same exception class -- on the restored object as on
the original, applied in either order.
"""

import copy
import io
import os
import pickle
import tempfile

import numpy as np
from hypothesis import strategies as st

from vf import core
from vf.gen import units as G
from vf.oracle import resolve as R

MOD = "vf.checks.c11"
ROUTES = ["pickle2", "pickle3", "pickle4", "pickle5", "copy.copy", "copy.deepcopy", ".copy()", "nested-pickle", "nested-deepcopy", "savetxt", "savetxt-header-footer", "savetxt-comma-two-columns", "savetxt-footer-one-word", "str-reparse",
          "unit-pickle", "unit-deepcopy", "unit-copy-deep", "unit-copy-shallow", "registry-json"]
SPECIAL_UNITS = ["degree", "rad", "arcmin", "degC", "degF", "K", "delta_degC", "mdegC", "dB", "Np", "lat", "lon", "percent", "dimensionless", "code_length", "kcode_length", "tX",
                 "pc", "kpc", "code_length*pc", "code_mass/code_length**3", "G", "statV", "T", "mol", "Msun", "J/K", "km/s", "erg/s/cm**2"]
FOLLOW = ["sin", "cos", "tan", "add_self", "mul2", "mul_self", "sqrt_abs", "in_base", "in_base_cgs", "in_base_mks", "in_base_galactic", "in_cgs", "in_mks", "to_custom", "to_m", "to_K",
          "to_rad", "add_orig", "sub_orig", "eq_orig", "lt_orig", "sum", "mean", "units_mul", "units_pow", "str", "repr", "base_equiv", "unit_system_name", "registry_probe",
          "latex", "is_dimensionless", "has_equiv", "to_equivalent", "pickle_again", "convert_inplace", "neg", "abs", "cumsum", "dot", "concatenate", "where", "max_orig"]
OBJECT_COPY_ROUTES = ("copy.copy", "copy.deepcopy", ".copy()", "nested-deepcopy", "unit-deepcopy", "unit-copy-deep", "unit-copy-shallow")
PROBE = ["code_length", "kcode_length", "code_mass", "tX", "mtX", "pc", "kpc", "m", "Msun", "foo_missing", "degC", "vfzz"]


def make_registry(kind):
    import unyt.dimensions as D
    from unyt.unit_registry import UnitRegistry

    if kind == "default":
        return None
    reg = UnitRegistry(unit_system="cgs") if kind.endswith("cgs") else UnitRegistry()
    reg.add("code_length", 3.0857e19, D.length, prefixable=True)
    reg.add("code_mass", 1.989e40, D.mass)
    reg.add("tX", 2.0, D.temperature, offset=10.0, prefixable=True)
    if "modified" in kind:
        reg.modify("pc", 3.0e16)
        reg.modify("Msun", 2.0e30)
    return reg


@st.composite
def case(draw):
    regkind = draw(st.sampled_from(["default", "custom", "custom-modified", "custom-cgs", "custom-modified-cgs"]))
    if draw(st.booleans()):
        unit = draw(st.sampled_from(SPECIAL_UNITS))
    else:
        unit = R.render(draw(G.unit_ast(max_factors=2, mild=True, coeff=False)))
    if regkind == "default" and ("code_" in unit or "tX" in unit):
        unit = "km/s"
    n = draw(st.integers(1, 3))
    return {"reg": regkind, "unit": unit, "vals": [draw(st.integers(-40, 40)) / 8 for _ in range(n)], "scalar": n == 1 and draw(st.booleans()),
            "dtype": draw(st.sampled_from(["float64", "float64", "int64", "float32"])), "route": draw(st.sampled_from(ROUTES)),
            "follow": [draw(st.sampled_from(FOLLOW)) for _ in range(draw(st.integers(1, 4)))], "order": draw(st.booleans()), "name": draw(st.sampled_from([None, "dens"])),
            "stale": draw(st.integers(0, 3)) == 0, "edit_after": draw(st.booleans())}


def persist(obj, route, tmpdir):
    """returns (restored object, kind) where kind in {'array','unit','registry'}"""
    from unyt import Unit, loadtxt, savetxt
    from unyt.unit_registry import UnitRegistry

    if route.startswith("pickle"):
        return pickle.loads(pickle.dumps(obj, protocol=int(route[-1]))), "array"
    if route == "copy.copy":
        return copy.copy(obj), "array"
    if route == "copy.deepcopy":
        return copy.deepcopy(obj), "array"
    if route == ".copy()":
        return obj.copy(), "array"
    if route == "nested-pickle":
        box = {"a": [obj, (obj.units, 3)], "b": obj}
        back = pickle.loads(pickle.dumps(box))
        return back["a"][0], "array"
    if route == "nested-deepcopy":
        box = [{"q": obj}, obj.units]
        return copy.deepcopy(box)[0]["q"], "array"
    if route.startswith("savetxt"):
        # the documented keyword arguments of savetxt (header / footer comment lines, delimiter, several columns with
        # units of their own) must not disturb the unit header loadtxt reads back
        from unyt import unyt_array as _ua

        path = os.path.join(tmpdir, "c11.txt")
        arr = np.atleast_1d(obj)
        cols, skw, lkw = [arr], {}, {}
        if "header-footer" in route:
            skw = {"header": "run 7 of the series", "footer": "end of data"}
        if "footer-one-word" in route:
            skw = {"footer": "checksum-0"}
        if "comma" in route:
            skw["delimiter"] = lkw["delimiter"] = ","
        if "two-columns" in route:
            cols = [arr, _ua(np.arange(arr.size, dtype=float) + 0.5, "km/s")]
        savetxt(path, cols, **skw)
        back = loadtxt(path, **lkw)
        if "two-columns" in route:
            second = back[1]
            if str(second.units) != "km/s" or not np.array_equal(np.atleast_1d(np.asarray(second)), np.arange(arr.size, dtype=float) + 0.5):
                return second, "array-text"  # reported as the restored object: its unit / numbers differ from the original's
        back = back[0] if isinstance(back, (list, tuple)) else back
        return back, "array-text"
    if route == "str-reparse":
        return type(obj)(np.array(np.asarray(obj), copy=True), Unit(str(obj.units), registry=obj.units.registry)), "array"
    if route == "unit-pickle":
        return pickle.loads(pickle.dumps(obj.units)), "unit"
    if route == "unit-deepcopy":
        return copy.deepcopy(obj.units), "unit"
    if route == "unit-copy-deep":
        return obj.units.copy(deep=True), "unit"
    if route == "unit-copy-shallow":
        return obj.units.copy(), "unit"
    if route == "registry-json":
        reg = obj.units.registry
        text = reg.to_json()
        first = UnitRegistry.from_json(text)
        # restored registries are independent objects: editing one reload must not show up in the next reload of the same text
        import unyt.dimensions as D_

        first.add("vfzz", 4.0, D_.length)
        try:
            first.modify("pc", 5.0)
            Unit("kpc", registry=first)
        except Exception:
            pass
        return UnitRegistry.from_json(text), "registry"
    raise ValueError(route)


def probe_registry(reg):
    from unyt import Unit

    out = {}
    for p in PROBE:
        try:
            u = Unit(p, registry=reg)
            out[p] = (float(u.base_value), R.dimvec_of(u.dimensions), float(u.base_offset))
        except Exception as e:
            out[p] = ("unknown", type(e).__name__)
    return out


def outcome(fn):
    """normalised outcome of a follow-up step: ('value', numbers, unit facts) | ('raise', class)"""
    try:
        r = fn()
    except Exception as e:
        return ("raise", type(e).__name__)
    return norm(r)


def norm(r):
    from unyt import Unit

    if isinstance(r, Unit):
        return ("unit", str(r), float(r.base_value), R.dimvec_of(r.dimensions), float(r.base_offset))
    if hasattr(r, "units") and isinstance(r, np.ndarray):
        return ("quantity", np.asarray(r).tolist(), str(np.asarray(r).dtype), str(r.units), float(r.units.base_value), R.dimvec_of(r.units.dimensions), float(r.units.base_offset))
    if isinstance(r, np.ndarray):
        return ("ndarray", r.tolist(), str(r.dtype))
    if isinstance(r, (tuple, list)):
        return ("seq", [norm(x) for x in r])
    if isinstance(r, (bytes,)):
        return ("bytes", len(r))
    if isinstance(r, dict):
        return ("dict", sorted((k, repr(v)) for k, v in r.items()))
    return ("py", repr(r).replace("(dimensionless)", "dimensionless"))  # 1 vs the symbol 'dimensionless': the same unit, printed two ways


def same_outcome(a, b):
    """outcomes agree: same structure, numbers within 1e-13 relative (a unit re-read from its printed form may differ
    in the last bit of its scale), same dimension/offset, same exception class; printed spellings of *derived* results are not compared"""
    if type(a) is not type(b):
        return False
    if isinstance(a, (tuple, list)):
        if len(a) != len(b):
            return False
        if a and a[0] == "unit" and b[0] == "unit":
            return same_outcome(a[2:], b[2:])
        if a and a[0] == "quantity" and b[0] == "quantity":
            if a[2] == b[2] and a[2] in _NARROW and same_outcome(tuple(a[4:]), tuple(b[4:])):
                # single/half precision results: the scale of a restored unit may have changed *type* (np.float64 -> float; same
                # value), and NumPy then rounds float32*scale once instead of twice: one unit in the last place of the narrow type
                return _close_narrow(a[1], b[1], _NARROW[a[2]])
            return same_outcome((a[1], a[2]) + tuple(a[4:]), (b[1], b[2]) + tuple(b[4:]))
        return all(same_outcome(x, y) for x, y in zip(a, b))
    if isinstance(a, float):
        if a == b or (a != a and b != b):
            return True
        return abs(a - b) <= 1e-13 * max(abs(a), abs(b))
    if isinstance(a, dict):
        return a.keys() == b.keys() and all(same_outcome(a[k], b[k]) for k in a)
    if isinstance(a, str):
        return a.replace("µ", "μ") == b.replace("µ", "μ")  # the micro-sign spelling is reported once, at restore time
    return a == b


_NARROW = {"float32": 2.0**-23, "complex64": 2.0**-23, "float16": 2.0**-10}


def _close_narrow(x, y, eps):
    if isinstance(x, (list, tuple)):
        return isinstance(y, (list, tuple)) and len(x) == len(y) and all(_close_narrow(p, q, eps) for p, q in zip(x, y))
    if isinstance(x, complex) or isinstance(y, complex):
        return _close_narrow(complex(x).real, complex(y).real, eps) and _close_narrow(complex(x).imag, complex(y).imag, eps)
    if x == y or (x != x and y != y):
        return True
    return abs(x - y) <= 2 * eps * max(abs(x), abs(y))


UNIT_SYSTEM_STEPS = {"unit_system_name", "in_base", "convert_inplace", "base_equiv", "pickle_again"}


def follow_fn(step, x, orig):
    """a follow-up operation on x (orig = the never-persisted original of the same value)"""
    from unyt import Unit, unyt_quantity

    reg = x.units.registry
    one = lambda u=None: unyt_quantity(1.0, u or x.units, registry=reg)  # noqa: E731
    return {
        "sin": lambda: np.sin(x), "cos": lambda: np.cos(x), "tan": lambda: np.tan(x), "add_self": lambda: x + x, "mul2": lambda: x * 2.0, "mul_self": lambda: x * x,
        "sqrt_abs": lambda: np.sqrt(abs(x)), "in_base": lambda: x.in_base(), "in_base_cgs": lambda: x.in_base("cgs"), "in_base_mks": lambda: x.in_base("mks"),
        "in_base_galactic": lambda: x.in_base("galactic"), "in_cgs": lambda: x.in_cgs(), "in_mks": lambda: x.in_mks(), "to_custom": lambda: (x / one()).to("dimensionless") * one("code_length"),
        "to_m": lambda: x.to("m"), "to_K": lambda: x.to("K"), "to_rad": lambda: x.to("rad"), "add_orig": lambda: x + orig, "sub_orig": lambda: orig - x, "eq_orig": lambda: x == orig,
        "lt_orig": lambda: x < orig, "sum": lambda: np.sum(x), "mean": lambda: x.mean(), "units_mul": lambda: x.units * Unit("s", registry=reg), "units_pow": lambda: x.units**2,
        "str": lambda: str(x), "repr": lambda: repr(x.units), "base_equiv": lambda: x.units.get_base_equivalent(), "unit_system_name": lambda: str(reg.unit_system),
        "registry_probe": lambda: probe_registry(reg), "latex": lambda: x.units.latex_representation(), "is_dimensionless": lambda: x.units.is_dimensionless,
        "has_equiv": lambda: x.units.has_equivalent("thermal"), "to_equivalent": lambda: x.to_equivalent("J", "thermal"), "pickle_again": lambda: pickle.loads(pickle.dumps(x)),
        "convert_inplace": lambda: (lambda y: (y.convert_to_base(), y)[1])(x.copy()), "neg": lambda: -x, "abs": lambda: abs(x), "cumsum": lambda: np.cumsum(np.atleast_1d(x)),
        "dot": lambda: np.dot(np.atleast_1d(x), np.atleast_1d(orig)), "concatenate": lambda: np.concatenate([np.atleast_1d(x), np.atleast_1d(orig)]),
        "where": lambda: np.where(np.asarray(np.atleast_1d(x)) > 0, np.atleast_1d(x), np.atleast_1d(orig)), "max_orig": lambda: np.maximum(x, orig),
    }[step]


def judge(c, part):
    from unyt import Unit, unyt_array, unyt_quantity

    out = []
    part.ev()
    reg = make_registry(c["reg"])
    try:
        u = Unit(c["unit"], registry=reg)
    except Exception:
        return out
    s = float(u.base_value)
    if not np.isfinite(s) or s == 0 or abs(np.log10(abs(s))) > 100:
        part.count("excluded_range")
        return out

    def build():
        arr = np.array(c["vals"], dtype=c["dtype"])
        q = unyt_quantity(arr[0], u, name=c["name"]) if c["scalar"] else unyt_array(arr, u, name=c["name"])
        return q

    if c["route"].startswith("savetxt") and c["reg"] != "default":
        part.count("savetxt with a custom registry: the text format cannot carry the registry (by design), not exercised")
        return out
    orig = build()
    twin = build()  # same value, never persisted: what the restored object is compared with
    if c.get("stale") and reg is not None and c["route"] in OBJECT_COPY_ROUTES:
        # the quantity's unit outlives a re-scaling of its registry ("unit objects created before an edit keep the value they had"):
        # an object copy keeps that meaning too
        reg.modify("code_length", 6.0e19)
        reg.modify("code_mass", 4.0e40)
        Unit("code_length", registry=reg), Unit(c["unit"], registry=reg)
        part.count("history: registry re-scaled between creation and copy")
    ctx = {"reg": c["reg"], "unit": c["unit"], "route": c["route"], "dtype": c["dtype"]}

    def bad(key, **kw):
        d = dict(ctx)
        d.update({k: repr(v)[:200] for k, v in kw.items()})
        out.append((f"C11:{key}", d))

    with tempfile.TemporaryDirectory(prefix="vfc11") as tmp:
        try:
            back, kind = persist(orig, c["route"], tmp)
        except Exception as e:
            esc = core.escaped_from_library(e)
            bad(f"route-raises:{c['route']}:{type(e).__name__}", error=str(e)[:200], where=esc)
            return out
    custom = reg is not None
    special = c["unit"] in SPECIAL_UNITS
    if custom or special:
        part.nt((c["reg"], c["route"], c["unit"] if special else "compound", tuple(c["follow"])))
    part.count(f"route {c['route']}")
    # ---- (1) immediately after restore
    if kind == "registry":
        a, b = probe_registry(orig.units.registry), probe_registry(back)
        if a != b:
            diff = {k: (a[k], b[k]) for k in a if a[k] != b[k]}
            bad("registry-contents-differ:json", diff=diff)
        if str(getattr(back, "unit_system", None)) != str(getattr(orig.units.registry, "unit_system", None)):
            bad("registry-unit-system-lost:json", original=orig.units.registry.unit_system, restored=getattr(back, "unit_system", None))
        return out
    if kind == "unit":
        bu = back
        if not (bu == orig.units and str(bu) == str(orig.units) and R.dimvec_of(bu.dimensions) == R.dimvec_of(orig.units.dimensions)):
            micro = ":micro-sign" if bu == orig.units and str(bu).replace("μ", "µ") == str(orig.units).replace("μ", "µ") else ""
            bad(f"unit-differs:{c['route']}{micro}", original=orig.units, restored=bu)
            if not micro:
                return out
        restored = type(orig)(np.array(np.asarray(orig), copy=True), bu, name=c["name"]) if not c["scalar"] else unyt_quantity(np.asarray(orig)[()], bu, name=c["name"])
    else:
        restored = back
        if not hasattr(restored, "units"):
            bad(f"restored-object-has-no-units:{c['route']}", got=type(restored).__name__)
            return out
        if kind == "array-text":
            if not np.allclose(np.asarray(restored, dtype=float).ravel(), np.asarray(orig, dtype=float).ravel(), rtol=1e-15, atol=0):
                bad("numbers-differ:savetxt", original=orig, restored=restored)
            restored = type(orig)(np.array(np.asarray(orig), copy=True), restored.units) if not c["scalar"] else unyt_quantity(np.asarray(orig)[()], restored.units)
        else:
            if np.asarray(restored).tobytes() != np.asarray(orig).tobytes() or np.asarray(restored).dtype != np.asarray(orig).dtype or np.shape(restored) != np.shape(orig):
                bad(f"numbers-differ:{c['route']}", original=orig, restored=restored)
                return out
            if type(restored) is not type(orig):
                bad(f"class-differs:{c['route']}", original=type(orig).__name__, restored=type(restored).__name__)
        if not (restored.units == orig.units and str(restored.units) == str(orig.units)):
            micro = ":micro-sign" if restored.units == orig.units and str(restored.units).replace("μ", "µ") == str(orig.units).replace("μ", "µ") else ""
            bad(f"unit-differs:{_rkey(c['route'])}{micro}", original=orig.units, restored=restored.units)
            if not micro:
                return out
    if kind != "array-text":
        a, b = probe_registry(orig.units.registry), probe_registry(restored.units.registry)
        if a != b:
            diff = {k: (a[k], b[k]) for k in a if a[k] != b[k]}
            bad(f"registry-contents-differ:{_rkey(c['route'])}", diff=diff)
            return out
    # ---- (2) behavioural differential, in either order
    for step in c["follow"]:
        part.ev()
        fo, fr = follow_fn(step, twin, orig), follow_fn(step, restored, orig)
        if c["order"]:
            o1 = outcome(fo)
            o2 = outcome(fr)
        else:
            o2 = outcome(fr)
            o1 = outcome(fo)
        if not same_outcome(o1, o2):
            if kind == "array-text" and step in ("registry_probe", "unit_system_name", "to_custom", "in_base", "base_equiv", "convert_inplace", "pickle_again"):
                part.count("savetxt loses the registry by design: registry-dependent follow-up not judged")
                continue
            us = ":unit-system" if (c["reg"].endswith("cgs") and step in UNIT_SYSTEM_STEPS) else ""
            bad(f"behaviour-differs:{_rkey(c['route'])}:{step}{us}", original=o1, restored=o2)
            break
    # ---- (3) a restored object that got its own registry is a snapshot: editing the original's registry afterwards changes nothing for it
    if reg is not None and c.get("edit_after") and kind != "array-text" and restored.units.registry is not reg and restored.units.registry.lut is not reg.lut and not out:
        part.ev()
        part.count("history: original registry edited after the restore")
        rreg = restored.units.registry
        steps = {"to-own-spelling": lambda: restored.to(str(restored.units)), "probe": lambda: probe_registry(rreg), "add-one": lambda: restored + unyt_quantity(1.0, str(restored.units), registry=rreg),
                 "in_base": lambda: restored.in_base(), "parsed-unit-registry": lambda: Unit(c["unit"], registry=rreg).registry is rreg,
                 "code_length": lambda: Unit("code_length", registry=rreg), "to-code": lambda: (restored / restored.units).to("dimensionless") * Unit("kcode_length", registry=rreg)}
        before = {k: outcome(f) for k, f in steps.items()}
        import unyt.dimensions as D_

        reg.modify("code_length", 1.0e19)
        reg.modify("code_mass", 1.0e39)
        reg.modify("tX", 4.0)
        reg.add("vfzz", 4.0, D_.length)
        Unit("code_length", registry=reg), Unit("kcode_length", registry=reg), Unit(c["unit"], registry=reg)
        for k, f in steps.items():
            after = outcome(f)
            if not same_outcome(before[k], after):
                bad(f"restored-follows-later-edits-of-the-original-registry:{_rkey(c['route'])}:{k}", before=before[k], after=after)
                break
        if before["parsed-unit-registry"] != ("py", "True"):
            bad(f"unit-parsed-against-restored-registry-bound-elsewhere:{_rkey(c['route'])}", got=before["parsed-unit-registry"])
    # ---- (3b) a copy that shares its registry's table with the original (Unit.copy(), copy.copy): an edit made through either
    #      handle is an edit of the one table both read, so by-name operations on original and copy keep giving the same outcome
    if reg is not None and c.get("edit_after") and kind != "array-text" and restored.units.registry is not twin.units.registry and restored.units.registry.lut is twin.units.registry.lut and not out:
        part.ev()
        part.count("history: shared table edited after a shallow copy")
        part.nt(("shared-table-edit", c["route"], c["unit"]))
        import unyt.dimensions as D_

        def by_name(x):
            r_ = x.units.registry
            return {"code_length": lambda: Unit("code_length", registry=r_), "kcode_length": lambda: Unit("kcode_length", registry=r_),
                    "to-code": lambda: (x / x.units).to("dimensionless") * Unit("code_length*kcode_length/s", registry=r_),
                    "own-spelling": lambda: Unit(c["unit"], registry=r_), "new-symbol": lambda: Unit("vfyy", registry=r_), "to-kcode": lambda: unyt_quantity(3.0, "m", registry=r_).to("kcode_length")}

        for k, f in list(by_name(twin).items()) + list(by_name(restored).items()):
            outcome(f)  # both handles have answered (and memoised) every name before the edit
        editor = (twin if len(c["unit"]) % 2 else restored).units.registry
        editor.modify("code_length", 7.0e18)
        editor.add("vfyy", 3.0, D_.length)
        for (k, f1), (_, f2) in zip(by_name(twin).items(), by_name(restored).items()):
            o1, o2 = outcome(f1), outcome(f2)
            if not same_outcome(o1, o2):
                bad(f"handles-on-one-table-disagree-after-an-edit:{_rkey(c['route'])}:{k}", original=o1, restored=o2, edited_through="original" if editor is twin.units.registry else "copy")
                break
    if len(part.samples) < 2:
        part.sample({"registry": c["reg"], "unit": c["unit"], "route": c["route"], "follow-up": c["follow"], "restored": repr(restored)[:80]})
    return out


def _rkey(route):
    return "pickle" if route.startswith("pickle") or route == "nested-pickle" else "deepcopy" if "deepcopy" in route else route


def part_random(payload):
    known = core.Known("C11")
    part = core.Part()
    core.hyp_explore(part, known, case(), judge, payload["n"], payload["seed"], label="C11:cases", max_roots=25)
    return part


def part_grid(payload):
    """deterministic: every route x registry kind x special unit, with a fixed follow-up battery"""
    known = core.Known("C11")
    part = core.Part()
    for route, regkind, unit in payload["cells"]:
        if regkind == "default" and ("code_" in unit or "tX" in unit):
            continue
        for i, fol in enumerate((["in_base", "sin", "add_self", "registry_probe"], ["to_custom", "mul2", "unit_system_name", "pickle_again"])):
            c = {"reg": regkind, "unit": unit, "vals": [1.5, -2.25, 3.0], "scalar": False, "dtype": "float64", "route": route, "follow": fol, "order": True, "name": None,
                 "stale": i == 1, "edit_after": True}
            for key, det in judge(c, part):
                core.classify(known, part, key, det)
    return part


XP_SCRIPT = r"""
import json, pickle, sys, numpy as np
sys.path.insert(0, sys.argv[3])
import unyt
assert unyt.__file__.startswith(sys.argv[3]), unyt.__file__
from unyt import unyt_array, unyt_quantity

DIV = {"degree*m": "m", "degree": None, "rad*s": "s", "arcmin/s": "1/s", "vfarcm": "m", "vfturn*km": "m", "K*m": "m"}


def outcome(f):
    try:
        r = f()
        return ["value", np.round(np.asarray(r, dtype=float), 10).tolist(), str(getattr(r, "units", ""))]
    except Exception as e:
        return ["raise", type(e).__name__]


def outcomes(objs):
    res = {}
    for name, q in objs.items():
        ops = {"identity": lambda q: q, "to_base": lambda q: q.in_base(), "x*2": lambda q: q * 2.0, "x*x": lambda q: q * q, "sqrt(|x|)": lambda q: np.sqrt(abs(q)), "x+x": lambda q: q + q}
        if name in DIV:
            d = DIV[name]
            rest = (lambda q: q) if d is None else (lambda q: q / unyt_quantity(2.0, d, registry=q.units.registry))
            ops.update({"sin(x/rest)": lambda q: np.sin(rest(q)), "cos(x/rest)": lambda q: np.cos(rest(q)), "tan(x/rest)": lambda q: np.tan(rest(q)),
                        "sqrt(x*x)/rest": lambda q: rest(np.sqrt(q * q)).in_base()})
        for on, f in ops.items():
            res[name + " :: " + on] = outcome(lambda: f(q))
    return res


if sys.argv[1] == "write":
    import unyt.dimensions as D
    from unyt.unit_registry import UnitRegistry
    reg = UnitRegistry()
    reg.add("vfarcm", 2.0, D.length * D.angle)
    reg.add("vfturn", 6.283185307179586, D.angle)
    objs = {}
    # the registry whose *table* holds a compound dimension comes first: its entries are the first compound dimensions the reader meets
    for name, u, r in (("vfarcm", "vfarcm", reg), ("vfturn*km", "vfturn*km", reg), ("degree*m", "degree*m", None), ("degree", "degree", None), ("rad*s", "rad*s", None),
                       ("arcmin/s", "arcmin/s", None), ("degC", "degC", None), ("degF*1", "degF", reg), ("dB", "dB", None), ("K*m", "K*m", None)):
        objs[name] = unyt_array(np.array([30.0, 60.0, -15.0]), u, registry=r)
    pickle.dump(objs, open(sys.argv[2], "wb"), protocol=int(sys.argv[4]))
    print(json.dumps(outcomes(objs)))
else:
    print(json.dumps(outcomes(pickle.load(open(sys.argv[2], "rb")))))
"""


def part_cross_process(payload):
    """objects pickled by one interpreter and loaded by *another, fresh* one (the usual life of a pickle) behave like their originals:
    angle-aware trigonometry after the non-angle factor is divided away, the temperature / logarithmic guards, roots of squares.
    Both sides are evaluated by the same script; the writer reports the originals' outcomes, the reader the restored ones'."""
    import json
    import os
    import subprocess
    import sys

    import unyt

    known = core.Known("C11")
    part = core.Part()
    repo = os.path.dirname(os.path.dirname(os.path.abspath(unyt.__file__)))
    for proto in payload["protocols"]:
        fd, path = tempfile.mkstemp(suffix=".pkl")
        os.close(fd)
        try:
            outs = []
            for mode in ("write", "read"):
                pr = subprocess.run([sys.executable, "-W", "ignore", "-c", XP_SCRIPT, mode, path, repo, str(proto)], capture_output=True, text=True, timeout=300)
                if pr.returncode:
                    raise RuntimeError(f"cross-process {mode} failed: " + pr.stderr[-400:])
                outs.append(json.loads(pr.stdout.strip().splitlines()[-1]))
        finally:
            os.remove(path)
        orig, rest = outs
        for k in sorted(orig):
            part.ev()
            name, on = k.split(" :: ")
            if orig[k] != rest.get(k):
                core.classify(known, part, f"C11:behaviour-differs:pickle-loaded-by-a-fresh-interpreter:{on}", {"unit": name, "protocol": proto, "original": orig[k], "restored": rest.get(k)})
            else:
                part.nt(("cross-process", name, on, proto))
    if len(part.samples) < 1:
        part.sample({"route": "pickled by one interpreter, loaded by a fresh one", "cases": len(orig), "protocols": payload["protocols"]})
    return part


def run(ctx):
    cells = [(r, k, u) for r in ROUTES for k in ("default", "custom", "custom-modified-cgs") for u in SPECIAL_UNITS]
    ctx.rule = (
        f"deterministic grid {len(ROUTES)} persistence routes x 3 registry kinds x {len(SPECIAL_UNITS)} special units (angles, offset and delta temperatures, "
        "logarithmic, lat/lon, code units incl. prefixed and offset, modified defaults, EM, mol) with two fixed follow-up batteries; Hypothesis cases "
        f"(registry kind, special or generated compound unit, values, dtype, scalar/array, name, route, 1-4 follow-up steps out of {len(FOLLOW)}, order). "
        "non-trivial = distinct (registry kind, route, special unit or 'compound', follow-up tuple) with a custom registry or a special unit"
    )
    ctx.assumptions = [
        "HDF5 route not exercised: h5py is not installed in this sandbox",
        "savetxt/loadtxt lose dtype and registry by design: numbers to 1e-15 relative and the parsed-back unit are asserted; registry-dependent follow-ups are not judged for that route",
        "the restored object is compared with a never-persisted twin built the same way, so the comparison is exact (same code path, same inputs)",
    ]
    ctx.merge(core.pmap(MOD, "part_grid", [{"cells": sh} for sh in core.shards(cells, 16)]))
    ctx.merge(core.pmap(MOD, "part_cross_process", [{"protocols": [2, 5]}] if ctx.quick else [{"protocols": [2]}, {"protocols": [3]}, {"protocols": [4]}, {"protocols": [5]}], timeout=600))
    n = ctx.pick(3200, 64000)
    ctx.merge(core.pmap(MOD, "part_random", [{"n": n // 16, "seed": ctx.seed * 1000 + i} for i in range(16)]))


def replay(ctx, data):
    d = data["detail"]
    if isinstance(d, dict) and "case" in d:
        for key, det in judge(d["case"], ctx):
            ctx.violation(key, det)
    else:
        c = {"reg": d["reg"], "unit": d["unit"], "vals": [1.5, -2.25, 3.0], "scalar": False, "dtype": d.get("dtype", "float64"), "route": d["route"],
             "follow": ["in_base", "sin", "add_self", "registry_probe", "to_custom", "unit_system_name"], "order": True, "name": None}
        for key, det in judge(c, ctx):
            ctx.violation(key, det)
