"""C03 -- conversion obeys identity, inverse and composition laws on every route.

Generated triples (A, B, C) of commensurable units in six families (plain compounds with
constructed partners, temperature scales with SI prefixes, angle offsets, CGS<->SI
electromagnetic pairs, custom-registry affine units with generated rational scale/offset,
integer/complex/float32 data) are pushed through every conversion entry point.  Oracles: the
laws themselves (x->A is x; A->B->A; A->B->C == A->C), agreement of all routes in numbers
and resulting unit, copy/in-place twin agreement for the base-unit routes, and -- where the
affine parameters are generated -- the exact rational value.
"""

import math
from fractions import Fraction as Fr

import numpy as np
from hypothesis import strategies as st

from vf import core
from vf.gen import units as G
from vf.oracle import resolve as R
from vf.oracle import table as T
from vf.checks import c08 as C8

MOD = "vf.checks.c03"
TEMP_NAMES = sorted(C8.unit_table(C8.ASCII_PREFIXES))
ANGLE_NAMES = sorted(s for s in T.BY_DIM[T.ANGLE])
EM_GROUPS = [("C", "statC"), ("A", "statA"), ("T", "G"), ("V", "statV"), ("ohm", "statohm")]
EM_PREFIXES = ["", "", "m", "k", "u", "M", "n", "c"]
DTYPES = ["float64", "float64", "float64", "float32", "complex128", "int64", "int32", "uint32"]

value = st.one_of(
    st.tuples(st.floats(2.0**-20, 2.0**20, allow_nan=False, width=32), st.sampled_from([1.0, -1.0])).map(lambda t: t[0] * t[1]),
    st.sampled_from([0.0, 1.0, -1.0, 100.0, 273.15, -459.67, 90.0, 1e-3]),
    st.integers(-1000, 1000).map(float),
)


@st.composite
def case(draw):
    fam = draw(st.sampled_from(["plain", "plain", "plain", "temp", "temp", "angle", "em", "custom", "custom", "dimless"]))
    c = {"fam": fam, "custom": None}
    if fam == "plain":
        a = draw(G.unit_ast(max_factors=3, mild=True, coeff=draw(st.integers(0, 5)) == 0))
        b = G.map_atoms(a, lambda n: G.partner_of(draw, n, mild=True))
        cc = G.map_atoms(a, lambda n: G.partner_of(draw, n, mild=True))
        c["units"] = [R.render(a), R.render(b, draw(st.integers(0, 1))), R.render(cc)]
        # one case in four lives in a private registry that re-scales default symbols (incl. base units of the built-in systems)
        c["modreg"] = draw(st.integers(0, 3)) == 0
    elif fam == "dimless":
        pool = ["", "dimensionless", "percent", "%", "km/m", "cm/m", "mmol", "mol", "g/kg", "Msun/g", "1", "ppm" if False else "percent", "min/s", "rad/degree" if False else "km/cm"]
        c["units"] = [draw(st.sampled_from(pool)) for _ in range(3)]
    elif fam == "temp":
        c["units"] = [draw(st.sampled_from(TEMP_NAMES)) for _ in range(3)]
    elif fam == "angle":
        c["units"] = [draw(st.sampled_from(ANGLE_NAMES)) for _ in range(3)]
        pre = draw(st.sampled_from(["", "", "m", "u", "k"]))
        if pre:
            c["units"][draw(st.integers(0, 2))] = pre + "rad"
    elif fam == "em":
        g = draw(st.sampled_from(EM_GROUPS))
        c["units"] = [draw(st.sampled_from(EM_PREFIXES)) + draw(st.sampled_from(g)) for _ in range(3)]
    else:
        # affine units with generated exact-rational parameters in a private registry
        params = []
        for i in range(2):
            s = draw(st.fractions(min_value=Fr(1, 64), max_value=1000, max_denominator=64))
            if draw(st.integers(0, 5)) == 0:
                s = -s
            off = draw(st.fractions(min_value=-1000, max_value=1000, max_denominator=64))
            if draw(st.integers(0, 3)) == 0:
                off = Fr(0)
            params.append((str(s), str(off)))
        c["custom"] = {"dim": draw(st.sampled_from(["temperature", "angle"])), "params": params}
        c["custom"]["si_default"] = draw(st.booleans())
        if draw(st.integers(0, 2)) == 0:
            # history: the same registry first held other definitions of tX / tY and served conversions with them
            c["custom"]["pre"] = [(str(draw(st.fractions(min_value=Fr(1, 8), max_value=64, max_denominator=8))), str(draw(st.fractions(min_value=-100, max_value=100, max_denominator=4)))) for _ in range(2)]
        pool = ["tX", "tY", "tX", "tY", "ktX", "mtY", "utX", "SI"]
        c["units"] = [draw(st.sampled_from(pool)) for _ in range(3)]
    c["dtype"] = draw(st.sampled_from(DTYPES))
    n = draw(st.integers(1, 3))
    c["values"] = [draw(value) for _ in range(n)]
    c["scalar"] = n == 1 and draw(st.booleans())
    return c


# ------------------------------------------------------------------ helpers
def _registry(case):
    from unyt.unit_registry import UnitRegistry
    import unyt.dimensions as D

    cu = case.get("custom")
    if not cu and case.get("modreg"):
        reg = UnitRegistry()
        for k_, sym in enumerate(("g", "m", "s", "K", "Msun", "pc", "yr", "mile", "ft", "lb", "erg", "J", "eV", "Hz", "N", "W", "AU", "hr", "inch", "kpc", "Myr")):
            if sym in reg.lut:
                reg.modify(sym, float(reg.lut[sym][0]) * (2.0 + (k_ % 4)))
        return reg, {}
    if not cu:
        return None, {}
    reg = UnitRegistry()
    dim = getattr(D, cu["dim"])
    si = "K" if cu["dim"] == "temperature" else "rad"
    model = {"SI": (Fr(1), Fr(0), si, bool(cu.get("si_default")))}
    if cu.get("pre"):
        from unyt import Unit, unyt_array

        for nm, (s, off) in zip(("tX", "tY"), cu["pre"]):
            reg.add(nm, float(Fr(s)), dim, offset=float(Fr(off)), prefixable=True)
        names = ["tX", "tY", "ktX", "mtY", "utX", si]
        for a_ in names:
            for b_ in names:
                try:
                    ua, ub = Unit(a_, registry=reg), Unit(b_, registry=reg)
                    q_ = unyt_array([1.0, 2.0], ua)
                    q_.to(ub), q_.to(b_), q_.in_units(ub), ua.get_conversion_factor(ub), q_.to_value(b_)
                    q_.convert_to_units(b_)
                except Exception:
                    pass
    for nm, (s, off) in zip(("tX", "tY"), cu["params"]):
        s, off = Fr(s), Fr(off)
        reg.add(nm, float(s), dim, offset=float(off), prefixable=True)
        # statement of the affine rule as the library documents it: SI = scale * (value - offset)
        model[nm] = (s, -s * off, nm)
    return reg, model


def _unit(name, reg, model):
    from unyt import Unit

    if name == "SI":
        name = model["SI"][2]
        if len(model["SI"]) > 3 and model["SI"][3]:
            return Unit(name)  # the SI unit of the *default* registry: conversions across registries go by the units' own definitions
    return Unit(name, registry=reg)


def _make(case, reg, model, uname):
    from unyt import unyt_array, unyt_quantity

    dt = np.dtype(case["dtype"])
    vals = case["values"]
    if dt.kind in "iu":
        vals = [int(abs(v) if dt.kind == "u" else v) for v in vals]
    if dt.kind == "c":
        vals = [complex(v, 0.5 * v) for v in vals]
    arr = np.array(vals, dtype=dt)
    u = _unit(uname, reg, model)
    if case["scalar"]:
        return unyt_quantity(arr[0], u)
    return unyt_array(arr, u)


def _feps(x):
    dt = np.asarray(x).dtype
    if dt.kind in "iu":
        dt = np.dtype("f" + str(max(2, dt.itemsize)))
    if dt.kind == "c":
        dt = np.dtype("f" + str(dt.itemsize // 2))
    return float(np.finfo(dt).eps)


def _zmag(u):
    return abs(float(u.base_offset)) * max(1.0, abs(float(u.base_value)))


def _close(got, want, eps, zsi, sU, k=64):
    g = np.atleast_1d(np.asarray(got)).astype(complex)
    w = np.atleast_1d(np.asarray(want)).astype(complex)
    if g.shape != w.shape:
        return False
    tol = k * eps * (np.abs(w) + zsi / abs(sU)) + 1e-300
    with np.errstate(all="ignore"):
        ok = np.abs(g - w) <= tol
    both_bad = ~np.isfinite(g) & ~np.isfinite(w)
    return bool(np.all(ok | both_bad))


def _same_units(u, v):
    return u == v and str(u) == str(v) and u.dimensions == v.dimensions


def _try(fn):
    try:
        return "ok", fn()
    except Exception as e:
        return "err", e


def judge(case, part):
    from unyt.exceptions import UnytError

    out = []
    reg, model = _registry(case)
    fam = case["fam"]
    an, bn, cn = case["units"]
    part.ev()
    st_, us = _try(lambda: [_unit(n, reg, model) for n in (an, bn, cn)])
    if st_ == "err":
        out.append((f"C03:unit-rejected:{fam}:{type(us).__name__}", {"units": case["units"], "error": str(us)[:200]}))
        return out
    A, B, C = us
    for u in us:
        s = abs(float(u.base_value))
        if not math.isfinite(s) or s == 0 or abs(math.log10(s)) > 120:
            part.count("excluded_range")
            return out
    x = _make(case, reg, model, an)
    eps = max(_feps(x), 2.3e-16)
    if eps > 1e-10:
        # 32-bit data: keep every pairwise factor (and value x factor) well inside float32's range
        sc = [abs(float(u.base_value)) for u in us]
        if max(sc) / min(sc) > 1e24 or max(sc) > 1e8 or min(sc) < 1e-8:
            part.count("excluded_range (float32)")
            return out
    zsi = _zmag(A) + _zmag(B) + _zmag(C)
    has_offset = zsi > 0
    distinct = len({an, bn, cn}) == 3 and not (A == B or B == C or A == C)
    if distinct and (has_offset or fam in ("em", "plain", "custom", "dimless")):
        part.nt((fam, tuple(sorted(T.dim_name(R.dimvec_of(A.dimensions)).split())), an if fam != "plain" else "", bn if fam != "plain" else "", cn if fam != "plain" else "", case["dtype"], R.n_atoms(("u", an)) if fam != "plain" else len(an)))
    part.count(f"family {fam}")
    part.count(f"dtype {case['dtype']}")
    ctx = {"units": case["units"], "dtype": case["dtype"], "values": case["values"], "custom": case.get("custom")}

    def bad(key, **kw):
        d = dict(ctx)
        d.update({k: (repr(v)[:160] if not isinstance(v, (int, float, str, list)) else v) for k, v in kw.items()})
        out.append((f"C03:{key}:{fam}", d))

    # ---- identity: converting to its own unit returns the same numbers
    for rname, rf in (("to", lambda q: q.to(A)), ("in_units", lambda q: q.in_units(an if an != "SI" else A)),
                      ("to_value", lambda q: q.to_value(A)), ("convert_to_units", lambda q: (q.convert_to_units(A), q)[1])):
        st_, r = _try(lambda: rf(x.copy()))
        if st_ == "err":
            bad(f"identity-raises:{rname}", error=r)
        elif not np.array_equal(np.asarray(r), np.asarray(x)):
            bad(f"identity-changes-numbers:{rname}", got=r, x=x)
        elif rname != "to_value" and not _same_units(r.units, A):
            bad(f"identity-changes-unit:{rname}", got=r.units)

    # ---- routes A -> B
    def routes(q, U, Uname):
        res = {}
        # the request is spelled the way users spell it -- as a string -- whenever the default registry is in play
        # (the Unit-object spelling is exercised by the custom-registry family and by `by_hand`)
        tgt = Uname if (Uname != "SI" and (reg is None or case.get("modreg"))) else U
        res["to"] = _try(lambda: q.to(tgt))
        res["in_units"] = _try(lambda: q.in_units(tgt))
        res["to_value"] = _try(lambda: q.to_value(tgt))
        res["convert_to_units"] = _try(lambda: (lambda y: (y.convert_to_units(tgt), y)[1])(q.copy()))
        res["to(Unit object)"] = _try(lambda: q.to(U))
        if fam != "em":
            def by_hand():
                f, off = q.units.get_conversion_factor(U, q.dtype)
                v = np.asarray(q).astype(complex if q.dtype.kind == "c" else float) * f
                if off:
                    v = v - off
                return v
            res["by_hand"] = _try(by_hand)
        return res

    def check_routes(q, U, Uname, tag):
        res = routes(q, U, Uname)
        if any(isinstance(r, (MemoryError, RecursionError)) for s, r in res.values() if s == "err"):
            return None
        oks = {k: r for k, (s, r) in res.items() if s == "ok"}
        errs = {k: r for k, (s, r) in res.items() if s == "err"}
        if errs and oks:
            # an 8-bit integer cannot be converted in place (documented refusal, C17)
            if set(errs) == {"convert_to_units"} and q.dtype.kind in "iu" and q.dtype.itemsize == 1:
                pass
            else:
                bad(f"route-disagreement-raises:{tag}:{'+'.join(sorted(errs))}", error=list(errs.values())[0], ok=sorted(oks))
        if not oks:
            if fam != "em":
                bad(f"conversion-raises:{tag}", error=list(errs.values())[0])
            else:
                part.count("em conversion refused")
            return None
        ref = oks.get("to", next(iter(oks.values())))
        refv = np.asarray(ref)
        for k, r in oks.items():
            if not _close(np.asarray(r), refv, eps, zsi, float(U.base_value), k=16):
                bad(f"route-disagreement-numbers:{tag}:{k}", got=r, ref=ref)
            if k in ("to", "in_units", "convert_to_units") and not _same_units(r.units, U):
                bad(f"route-disagreement-unit:{tag}:{k}", got=r.units, want=U)
        return ref

    xb = check_routes(x, B, bn, "A->B")
    xc = check_routes(x, C, cn, "A->C")
    if xb is None or xc is None:
        return out
    # ---- inverse
    st_, back = _try(lambda: xb.to(A))
    if st_ == "err":
        bad("inverse-raises", error=back)
    elif not _close(back, np.asarray(x), eps, zsi, float(A.base_value)):
        bad("inverse", got=back, x=x, via=xb)
    # ---- composition
    xbc = check_routes(xb, C, cn, "B->C")
    if xbc is not None and not _close(xbc, np.asarray(xc), eps, zsi, float(C.base_value)):
        bad("composition", via_B=xbc, direct=xc, B_value=xb)
    # ---- the same laws along one chain of objects the library handed back: a copy in the source's own unit (and one in
    # B), converted in place step by step, while the source is asked again afterwards -- A->A and A->B must not stay
    # attached to their source, otherwise A->C taken after the chain differs from A->C taken before it
    for first, fU in (("own-unit", A), ("B", B)):
        x0 = x.copy()
        before = np.asarray(x0).tobytes()

        def chain():
            y = x0.to(fU)
            if first == "own-unit":
                y.convert_to_units(B)
            y.convert_to_units(C)
            return y, x0.to(C)
        st_, r = _try(chain)
        if st_ == "err":
            if not (x.dtype.kind in "iu" and x.dtype.itemsize == 1):
                part.count("chain on returned objects raises (judged by the route clauses)")
            continue
        y, direct = r
        if np.asarray(x0).tobytes() != before or not _same_units(x0.units, A):
            bad(f"chain-on-returned-objects:source-changed:{first}", source_now=x0, source_was=x)
        elif not _close(np.asarray(direct), np.asarray(xc), eps, zsi, float(C.base_value)):
            bad(f"chain-on-returned-objects:A->C-after-the-chain-differs:{first}", after=direct, before=xc)
        elif not _close(np.asarray(y), np.asarray(xc), eps, zsi, float(C.base_value), k=256):
            bad(f"chain-on-returned-objects:in-place-chain-differs-from-A->C:{first}", chain=y, direct=xc)
    # ... and along the base-unit routes, also starting from a quantity that already is in base units (nothing to rescale): what
    # in_base / in_mks / in_cgs hand back is converted in place; the quantity they were asked of must still be what it was
    for route, step in (("in_base", lambda q: q.in_base()), ("in_mks", lambda q: q.in_mks()), ("in_cgs", lambda q: q.in_cgs())):
        if x.dtype.itemsize < 8:
            # single precision: the detour through base units can leave the float32 range (0 * inf = nan) where A->C does not;
            # that is arithmetic in a narrow type, not the subject of this clause
            part.count("base-route chain not run on 32-bit data")
            break
        for start in ("A", "A-in-base-units"):
            try:
                src = x.copy() if start == "A" else getattr(x, route)().copy()
            except Exception:
                continue
            before, u_before = np.asarray(src).tobytes(), src.units

            def chain2():
                y = step(src)
                y.convert_to_units(B)
                y.convert_to_units(C)
                return y, src.to(C)
            st_, r = _try(chain2)
            if st_ == "err":
                part.count("base-route chain raises (judged by the route clauses)")
                continue
            y, direct = r
            part.nt(("base-route-chain", route, start, fam))
            if np.asarray(src).tobytes() != before or not _same_units(src.units, u_before):
                bad(f"chain-on-returned-objects:source-changed:{route}:{start}", source_now=src, source_was=x)
            elif not _close(np.asarray(direct), np.asarray(xc), eps, zsi, float(C.base_value), k=64):
                bad(f"chain-on-returned-objects:A->C-after-the-chain-differs:{route}:{start}", after=direct, before=xc)
            elif not _close(np.asarray(y), np.asarray(xc), eps, zsi, float(C.base_value), k=256):
                bad(f"chain-on-returned-objects:in-place-chain-differs-from-A->C:{route}:{start}", chain=y, direct=xc)
    # ---- exact value for generated affine parameters
    if fam == "custom":
        def aff(name):
            if name in model:
                return model[name][0], model[name][1], True
            p, b = name[0], name[1:]
            f = {"k": Fr(1000), "m": Fr(1, 1000), "u": Fr(1, 10**6)}[p]
            s, z, _ = model[b]
            if case["custom"]["dim"] == "angle":
                # the documented rule SI = scale * (value - offset) applies to the prefixed unit as a whole
                return s * f, z * f, True
            # temperature: the library keeps the zero point of the unprefixed scale (mdegC: K = 0.001*v + 273.15);
            # that convention is only pinned for unit scale
            return s * f, z, s == 1
        (sa, za, oka), (sb, zb, okb) = aff(an), aff(bn)
        if oka and okb and x.dtype.kind == "f":
            want = [float((sa * Fr(float(v)) + za - zb) / sb) for v in np.atleast_1d(np.asarray(x))]
            if not _close(xb, np.array(want), eps, float(abs(za) + abs(zb)), float(sb), k=32):
                bad("exact-affine-value", got=xb, want=want)
            else:
                part.count("exact affine value confirmed")
    # ---- base-unit routes: copy vs in-place twins, named vs generic, round trip
    twins = [
        ("in_base", lambda q: q.in_base(), lambda q: q.convert_to_base()),
        ("in_mks", lambda q: q.in_mks(), lambda q: q.convert_to_mks()),
        ("in_cgs", lambda q: q.in_cgs(), lambda q: q.convert_to_cgs()),
        ("in_base(cgs)", lambda q: q.in_base("cgs"), lambda q: q.convert_to_base("cgs")),
        ("in_base(mks)", lambda q: q.in_base("mks"), lambda q: q.convert_to_base("mks")),
    ]
    if case.get("modreg"):
        twins += [("in_base(galactic)", lambda q: q.in_base("galactic"), lambda q: q.convert_to_base("galactic")),
                  ("in_base(imperial)", lambda q: q.in_base("imperial"), lambda q: q.convert_to_base("imperial"))]
    got = {}
    for nm, cp, ip in twins:
        s1, r1 = _try(lambda: cp(x))
        s2, r2 = _try(lambda: (lambda y: (ip(y), y)[1])(x.copy()))
        if s1 != s2:
            if s2 == "err" and x.dtype.kind in "iu" and x.dtype.itemsize == 1:
                continue
            bad(f"twin-disagreement-raises:{nm}", copy=r1, inplace=r2)
            continue
        if s1 == "err":
            part.count(f"{nm} refused")
            continue
        if eps > 1e-10 and not (np.all(np.isfinite(np.asarray(r1))) and np.all(np.isfinite(np.asarray(r2)))
                                 and np.all((np.asarray(r1) != 0) == (np.asarray(x) != 0))):
            part.count("excluded_range (32-bit data: base-unit factor over/underflows float32)")
            continue
        bv_ = abs(float(r1.units.base_value))
        a1_ = np.abs(np.asarray(r1).astype(complex))
        tiny_ = 1e-30 if max(eps, _feps(r1)) > 1e-10 else 1e-280
        if not math.isfinite(bv_) or bv_ == 0 or abs(math.log10(bv_)) > 100 or not np.all(np.isfinite(a1_)) or np.any((a1_ != 0) & ((a1_ < tiny_) | (a1_ > 1 / tiny_))) \
                or np.any((a1_ == 0) != (np.asarray(x) == 0)) or (tiny_ == 1e-30 and not (1e-30 < abs(float(A.base_value)) / bv_ < 1e30)):
            part.count("excluded_range (base-unit scale or values leave the float range)")
            continue
        got[nm] = r1
        e2 = max(eps, _feps(r1), _feps(r2))
        if not _same_units(r1.units, r2.units):
            bad(f"twin-disagreement-unit:{nm}", copy=r1.units, inplace=r2.units)
        elif not _close(r2, np.asarray(r1), e2, zsi, float(r1.units.base_value), k=8):
            bad(f"twin-disagreement-numbers:{nm}", copy=r1, inplace=r2)
        s3, r3 = _try(lambda: r1.to(A))
        if s3 == "ok":
            if not _close(r3, np.asarray(x), e2, zsi, float(A.base_value)):
                bad(f"base-round-trip:{nm}", got=r3, x=x, base=r1)
        elif fam != "em":
            bad(f"base-round-trip-raises:{nm}", error=r3, base=r1)
    for a_, b_ in (("in_mks", "in_base(mks)"), ("in_cgs", "in_base(cgs)")):
        if a_ in got and b_ in got:
            if not _same_units(got[a_].units, got[b_].units) or not np.array_equal(np.asarray(got[a_]), np.asarray(got[b_])):
                bad(f"named-vs-generic:{a_}", named=got[a_], generic=got[b_])
    if "in_base" in got and reg is None:
        s4, be = _try(lambda: A.get_base_equivalent())
        if s4 == "ok" and not _same_units(got["in_base"].units, be):
            bad("in_base-vs-get_base_equivalent", got=got["in_base"].units, want=be)
    if part.evaluations % 97 == 1:
        part.sample({"family": fam, "A,B,C": case["units"], "dtype": case["dtype"], "values": case["values"],
                     "A->B": repr(xb)[:80], "A->B->C": repr(xbc)[:80], "A->C": repr(xc)[:80]})
    return out


def part_random(payload):
    known = core.Known("C03")
    part = core.Part()
    core.hyp_explore(part, known, case(), judge, payload["n"], payload["seed"], label="C03:triples")
    return part


def part_temp_table(payload):
    """exhaustive temperature x prefix pair table through all routes (composition via K)"""
    known = core.Known("C03")
    part = core.Part()
    for a, b in payload["pairs"]:
        for dt in ("float64", "int64"):
            c = {"fam": "temp", "custom": None, "units": [a, b, "K"], "dtype": dt, "values": [50.0, -40.0, 0.0], "scalar": False}
            for key, det in judge(c, part):
                core.classify(known, part, key, det)
    return part


def run(ctx):
    ctx.rule = (
        "Hypothesis-generated (A,B,C, values, dtype, shape) in families plain-compound (partners constructed per factor within "
        "its dimension), temperature (6 spellings x ASCII SI prefixes), angle (incl. lat/lon offsets), CGS<->SI EM pairs with "
        "prefixes, custom-registry affine units with generated rational scale/offset (negative scales, zero offsets, prefixed); "
        "each through to/in_units/to_value/convert_to_units/get_conversion_factor-by-hand, identity/inverse/composition laws, "
        "in_base/in_mks/in_cgs with in-place twins and round trip; thorough adds the exhaustive temperature pair table. "
        "non-trivial = distinct (family, units or dimension signature, dtype) with pairwise different A,B,C"
    )
    ctx.assumptions = [
        "the 'for all real scale/offset, symbolically' clause is searched with exact rationals, not proved",
        "tolerance 64 eps x (|value| + sum of zero-point magnitudes / target scale); ints judged at the float width of their item size",
        "for prefixed custom offset units with scale != 1 only the laws are asserted (the library pins no zero-point convention there)",
        "8-bit integers may refuse in-place conversion (documented)",
    ]
    n = ctx.pick(16000, 160000)
    ctx.merge(core.pmap(MOD, "part_random", [{"n": n // 16, "seed": ctx.seed * 1000 + i} for i in range(16)]))
    names = TEMP_NAMES if not ctx.quick else sorted(C8.unit_table(C8.QUICK_PREFIXES))
    pairs = [(a, b) for a in names for b in names if a != b]
    ctx.merge(core.pmap(MOD, "part_temp_table", [{"pairs": sh} for sh in core.shards(pairs, 16)]))


def replay(ctx, data):
    d = data["detail"]
    c = d["case"] if "case" in d else {"fam": data["key"].rsplit(":", 1)[-1], "custom": d.get("custom"), "units": d["units"],
                                       "dtype": d["dtype"], "values": d["values"], "scalar": False}
    for key, det in judge(c, ctx):
        ctx.violation(key, det)
