"""C04 -- arithmetic results do not depend on the units operands are written in.

Hypothesis generates straight-line programs over a register file (type-directed so that the
dimensional analysis is valid by construction, plus a few deliberately invalid steps).  Every
program is executed by unyt and by a reference interpreter that works on (SI magnitude,
dimension vector) pairs -- SI magnitudes from the independent table, forward error bounds
propagated alongside.  After *every* instruction the library register must denote the
reference quantity: value x scale == SI magnitude within the propagated bound, same dimension
vector, and sums/differences labelled with the left operand's unit.

Second oracle (metamorphic): the same program with every leaf re-expressed in power-of-64
custom-registry units must give bit-identical numbers after conversion back (IEEE arithmetic
is exactly covariant under power-of-two scaling).
"""

import math
from fractions import Fraction as Fr

import numpy as np
from hypothesis import strategies as st

from vf import core
from vf.oracle import resolve as R
from vf.oracle import table as T

MOD = "vf.checks.c04"
EPS = 2.220446049250313e-16

# units per base dimension (index into dimvec): plain multiplicative units only
BASE_UNITS = {
    0: ["kg", "g", "lb", "mg", "Msun", "oz", "kg"],
    1: ["m", "cm", "km", "inch", "ft", "mile", "AU", "mm", "um", "pc"],
    2: ["s", "ms", "min", "hr", "day", "yr", "us"],
    3: ["K", "R", "mK"],
    4: ["rad", "degree", "arcmin", "arcsec", "mrad"],
    5: ["A", "mA", "kA"],
}
NAMED = {  # extra spellings for common derived dimensions
    T.FORCE: ["N", "dyn", "lbf", "kN"], T.ENERGY: ["J", "erg", "eV", "kJ", "cal", "kWh"], T.POWER: ["W", "hp", "mW"],
    T.PRESSURE: ["Pa", "bar", "atm", "psi", "kPa"], T.VELOCITY: ["mph", "c", "kt"], T.RATE: ["Hz", "kHz"],
    T.ZERO: ["dimensionless", "percent", "dimensionless"],
}
# dyadic custom units: scale = 64**k times the coherent SI unit
DYADIC = {0: [("Ma", 64.0), ("Mb", 1 / 4096.0)], 1: [("La", 64.0), ("Lb", 1 / 64.0), ("Lc", 4096.0)],
          2: [("Ta", 64.0), ("Tb", 1 / 64.0)], 3: [("Ka", 64.0)], 5: [("Ia", 1 / 64.0), ("Ib", 64.0)]}
SI_NAME = {0: "kg", 1: "m", 2: "s", 3: "K", 4: "rad", 5: "A"}
LEAF_DIMS = [T.LENGTH, T.LENGTH, T.TIME, T.MASS, T.VELOCITY, T.ANGLE, T.ZERO, T.ENERGY, T.FORCE, T.AREA, T.RATE,
             T.PRESSURE, T.ACCEL, T.POWER, T.CURRENT, T.CHARGE]


def _exp_str(e):
    e = Fr(e)
    if e == 1:
        return ""
    if e.denominator == 1:
        return f"**{e.numerator}" if e.numerator > 0 else f"**({e.numerator})"
    return f"**({e.numerator}/{e.denominator})"


@st.composite
def unit_for_dim(draw, dim, dyadic=False):
    """a unit string with dimension vector *dim*, by construction"""
    if not dyadic and dim in NAMED and draw(st.integers(0, 2)) > 0:
        return draw(st.sampled_from(NAMED[dim]))
    parts = []
    for i, e in enumerate(dim[:6]):
        if e == 0:
            continue
        if dyadic:
            pool = [n for n, _ in DYADIC.get(i, [])] + [SI_NAME[i]]
        else:
            pool = BASE_UNITS[i]
        parts.append(draw(st.sampled_from(pool)) + _exp_str(e))
    if any(dim[6:]):
        raise ValueError("unsupported dimension")
    if not parts:
        return "dimensionless"
    s = parts[0]
    for p in parts[1:]:
        s += "*" + p
    return s


val = st.integers(-64, 64).map(lambda k: k / 16.0)
nz = val.filter(lambda v: v != 0)
BIN_SAME = ["add", "sub", "maximum", "minimum", "hypot", "mod", "fmod", "arctan2", "floordiv", "fmax", "fmin", "divmod", "npdivmod"]
BIN_ANY = ["mul", "div", "npmul", "npdiv"]
UN = ["neg", "pos", "abs", "sqrt", "cbrt", "square", "reciprocal", "npabs", "fabs"]
RED = ["sum", "mean", "npsum", "add.reduce", "add.accumulate", "cumsum", "max", "min", "prod", "multiply.reduce", "std", "ptp"]
POWS = [Fr(2), Fr(3), Fr(-1), Fr(-2), Fr(1, 2), Fr(1, 3), Fr(3, 2), Fr(0), Fr(1)]
CMP = ["lt", "le", "gt", "ge", "eq", "ne"]


def _bshape(a, b):
    try:
        return np.broadcast_shapes(a, b)
    except ValueError:
        return None


@st.composite
def program(draw):
    n = draw(st.sampled_from([1, 2, 3, 4]))
    dyadic = draw(st.integers(0, 3)) == 0
    regs = []  # (dim, shape)
    prog = []

    def new_leaf(dim, shape=None):
        if shape is None:
            shape = draw(st.sampled_from([(n,), (n,), (), (2, n)]))
        cnt = int(np.prod(shape)) if shape else 1
        vals = [draw(val) for _ in range(cnt)]
        u = draw(unit_for_dim(dim, dyadic and not any(dim[4:5])))
        prog.append(("leaf", u, vals, list(shape)))
        regs.append((dim, tuple(shape)))
        return len(regs) - 1

    for _ in range(draw(st.integers(2, 3))):
        d = draw(st.sampled_from(LEAF_DIMS))
        if dyadic and d[4] != 0:
            d = T.LENGTH
        new_leaf(d)
    steps = draw(st.integers(2, 10))
    for _ in range(steps):
        kind = draw(st.sampled_from(["same", "same", "any", "any", "un", "pow", "red", "iop", "out", "trig", "scal", "cmp", "dot", "outer", "bad"]))
        i = draw(st.integers(0, len(regs) - 1))
        di, si = regs[i]
        if max(abs(x) for x in di) > 6:
            continue
        if kind in ("same", "iop", "out", "cmp", "bad"):
            # partner: an existing register of the same dimension, or a fresh leaf in another unit
            cands = [j for j, (d, s) in enumerate(regs) if d == di and _bshape(s, si) is not None]
            if kind == "bad":
                cands = [j for j, (d, s) in enumerate(regs) if d != di and _bshape(s, si) is not None and any(d) and any(di)]
                if not cands:
                    continue
                j = draw(st.sampled_from(cands))
                prog.append(("bad", draw(st.sampled_from(["add", "sub", "maximum", "lt", "hypot", "mod"])), i, j))
                continue
            if any(di[6:]) or (len(cands) < 2 and draw(st.booleans())) or not cands:
                j = new_leaf(di, draw(st.sampled_from([si, si, ()])))
            else:
                j = draw(st.sampled_from(cands))
            dj, sj = regs[j]
            rs = _bshape(si, sj)
            if kind == "same":
                op = draw(st.sampled_from(BIN_SAME))
                prog.append(("bin", op, i, j))
                regs.append((T.ZERO if op in ("arctan2", "floordiv", "divmod", "npdivmod") else di, rs))
                if op in ("divmod", "npdivmod"):
                    regs.append((di, rs))
            elif kind == "cmp":
                prog.append(("cmp", draw(st.sampled_from(CMP)), i, j))
            elif kind == "iop":
                if rs != si or not si:
                    continue
                prog.append(("iop", draw(st.sampled_from(["iadd", "isub"])), i, j))
            else:
                outs = [k for k, (d, s) in enumerate(regs) if s == rs and s and k not in (i, j)]
                if not outs:
                    continue
                k = draw(st.sampled_from(outs))
                prog.append(("out", draw(st.sampled_from(["add", "sub", "mul", "div", "maximum"])), i, j, k))
                op = prog[-1][1]
                regs[k] = (T.dmul(di, dj) if op == "mul" else T.ddiv(di, dj) if op == "div" else di, rs)
                regs.append(regs[k])
        elif kind == "any":
            j = draw(st.integers(0, len(regs) - 1))
            dj, sj = regs[j]
            rs = _bshape(si, sj)
            if rs is None:
                continue
            op = draw(st.sampled_from(BIN_ANY))
            if draw(st.integers(0, 5)) == 0 and rs == si and si:
                prog.append(("iop", "imul" if op in ("mul", "npmul") else "idiv", i, j))
                regs[i] = (T.dmul(di, dj) if op in ("mul", "npmul") else T.ddiv(di, dj), si)
            else:
                prog.append(("bin", op, i, j))
                regs.append((T.dmul(di, dj) if op in ("mul", "npmul") else T.ddiv(di, dj), rs))
        elif kind == "un":
            op = draw(st.sampled_from(UN))
            prog.append(("un", op, i))
            nd = {"sqrt": T.dpow(di, Fr(1, 2)), "cbrt": T.dpow(di, Fr(1, 3)), "square": T.dpow(di, 2),
                  "reciprocal": T.dpow(di, -1)}.get(op, di)
            regs.append((nd, si))
        elif kind == "pow":
            p = draw(st.sampled_from(POWS))
            form = draw(st.sampled_from(["op", "op_float", "np.power", "op_array_exp", "np.power_array_exp"]))
            prog.append(("pow", form, i, str(p)))
            regs.append((T.dpow(di, p), si))
        elif kind == "red":
            if not si:
                continue
            op = draw(st.sampled_from(RED))
            prog.append(("red", op, i))
            cnt = int(np.prod(si))
            if op in ("add.accumulate", "cumsum"):
                regs.append((di, si if op == "add.accumulate" else (cnt,)))
            elif op in ("add.reduce", "multiply.reduce"):
                regs.append((di if op == "add.reduce" else T.dpow(di, si[0]), si[1:]))
            elif op == "prod":
                regs.append((T.dpow(di, cnt), ()))
            else:
                regs.append((di, ()))
        elif kind == "trig":
            if di != T.ANGLE:
                continue
            prog.append(("trig", draw(st.sampled_from(["sin", "cos", "tan"])), i))
            regs.append((T.ZERO, si))
        elif kind == "scal":
            c = draw(st.sampled_from([2.0, 0.5, -3.0, 4, 0.25, 10.0]))
            prog.append(("scal", draw(st.sampled_from(["mul", "rmul", "div", "rdiv"])), i, c))
            regs.append((T.dpow(di, -1) if prog[-1][1] == "rdiv" else di, si))
        elif kind == "dot":
            cands = [j for j, (d, s) in enumerate(regs) if s == si and len(s) == 1]
            if len(si) != 1 or not cands:
                continue
            j = draw(st.sampled_from(cands))
            prog.append(("dot", draw(st.sampled_from(["np.dot", "matmul", "method", "vdot", "inner", "method_out", "np.dot_out"])), i, j))
            regs.append((T.dmul(di, regs[j][0]), ()))
            if prog[-1][1].endswith("_out"):
                regs.append((T.dmul(di, regs[j][0]), ()))  # the out= buffer is a register of its own
        elif kind == "outer":
            cands = [j for j, (d, s) in enumerate(regs) if len(s) == 1]
            if len(si) != 1 or not cands:
                continue
            j = draw(st.sampled_from(cands))
            op = draw(st.sampled_from(["add.outer", "multiply.outer", "np.outer"]))
            if op == "add.outer":
                if regs[j][0] != di:
                    continue
                regs.append((di, (si[0], regs[j][1][0])))
            else:
                regs.append((T.dmul(di, regs[j][0]), (si[0], regs[j][1][0])))
            prog.append(("outer", op, i, j))
    return {"dyadic": dyadic, "prog": prog}


# ------------------------------------------------------------------ execution
class Tainted(Exception):
    pass


def _dy_registry():
    from unyt.unit_registry import UnitRegistry
    import unyt.dimensions as D

    dims = {0: D.mass, 1: D.length, 2: D.time, 3: D.temperature, 5: D.current_mks}
    reg = UnitRegistry()
    for i, lst in DYADIC.items():
        for nm, sc in lst:
            reg.add(nm, sc, dims[i])
    return reg


def _dy_atom(name):
    for i, lst in DYADIC.items():
        for nm, sc in lst:
            if nm == name:
                d = [0] * 8
                d[i] = 1
                return T.mpf(sc), tuple(Fr(x) for x in d), 0
    return R.atom(name)


def _oracle_unit(ustr):
    """(scale float, dimvec) of a generated unit string, from the independent table"""
    s, d = T.mpf(1), T.ZERO
    for part in ustr.split("*"):
        if not part:
            continue
    # generated strings are products of name[**exp]; parse them ourselves
    toks = []
    cur = ""
    depth = 0
    i = 0
    text = ustr
    while i < len(text):
        ch = text[i]
        if ch == "(":
            depth += 1
        if ch == ")":
            depth -= 1
        if ch == "*" and depth == 0 and text[i:i + 2] != "**" and (i == 0 or text[i - 1] != "*"):
            toks.append(cur)
            cur = ""
        else:
            cur += ch
        i += 1
    toks.append(cur)
    for t in toks:
        if "**" in t:
            nm, e = t.split("**")
            e = Fr(e.strip("()"))
        else:
            nm, e = t, Fr(1)
        a_s, a_d, _ = _dy_atom(nm)
        s *= T.mp.power(a_s, T.mpf(e.numerator) / e.denominator)
        d = T.dmul(d, T.dpow(a_d, e))
    return float(s), d


class RefReg:
    __slots__ = ("si", "err", "dim", "taint")

    def __init__(self, si, err, dim, taint=False):
        self.si = np.asarray(si, dtype=float)
        self.err = np.broadcast_to(np.asarray(err, dtype=float), self.si.shape).copy()
        self.dim = dim
        self.taint = taint


def _near_int(q):
    with np.errstate(all="ignore"):
        return bool(np.any(np.abs(q - np.rint(q)) <= 1e-7 * np.maximum(1.0, np.abs(q))))


def _insig(x, ex):
    """True if some element is not significantly different from zero (a singularity of 1/x)"""
    with np.errstate(all="ignore"):
        return bool(np.any(np.abs(x) <= 4096 * EPS * ex))


def ref_bin(op, a, b):
    x, y, ex, ey = a.si, b.si, a.err, b.err
    taint = a.taint or b.taint
    with np.errstate(all="ignore"):
        if op in ("add", "iadd"):
            r = x + y
            return RefReg(r, ex + ey + np.abs(r), a.dim, taint)
        if op in ("sub", "isub"):
            r = x - y
            return RefReg(r, ex + ey + np.abs(r), a.dim, taint)
        if op in ("maximum", "minimum", "fmax", "fmin"):
            r = getattr(np, op)(x, y)
            return RefReg(r, ex + ey + np.abs(r), a.dim, taint)
        if op == "hypot":
            r = np.hypot(x, y)
            return RefReg(r, ex + ey + 2 * np.abs(r), a.dim, taint)
        if op in ("mul", "npmul", "imul"):
            r = x * y
            return RefReg(r, ex * np.abs(y) + ey * np.abs(x) + 64 * EPS * ex * ey + np.abs(r), T.dmul(a.dim, b.dim), taint)
        if op in ("div", "npdiv", "idiv"):
            r = x / y
            return RefReg(r, ex / np.abs(y) + ey * np.abs(x) / (y * y) + np.abs(r), T.ddiv(a.dim, b.dim), taint or _insig(y, ey))
        if op == "arctan2":
            r = np.arctan2(x, y)
            den = x * x + y * y
            return RefReg(r, (ex * np.abs(y) + ey * np.abs(x)) / den + 2 * np.abs(r) + 1e-300, T.ZERO, taint or bool(np.any(den == 0)) or (_insig(x, ex) and _insig(y, ey)))
        q = x / y
        if op in ("mod", "fmod", "floordiv"):
            if _near_int(q) or bool(np.any(y == 0)) or _insig(y, ey) or bool(np.any((ex + ey * np.abs(q)) * EPS * 64 > 1e-3 * np.abs(y))):
                taint = True
            if op == "floordiv":
                r = np.floor(q)
                return RefReg(r, np.abs(r) + 1, T.ZERO, taint)
            r = np.mod(x, y) if op == "mod" else np.fmod(x, y)
            return RefReg(r, ex + ey * (np.abs(q) + 1) + np.abs(r) + np.abs(y) * 4, a.dim, taint)
    raise ValueError(op)


def ref_un(op, a):
    x, ex = a.si, a.err
    with np.errstate(all="ignore"):
        if op in ("neg",):
            return RefReg(-x, ex, a.dim, a.taint)
        if op == "pos":
            return RefReg(x, ex, a.dim, a.taint)
        if op in ("abs", "npabs", "fabs"):
            return RefReg(np.abs(x), ex, a.dim, a.taint)
        if op == "sqrt":
            r = np.sqrt(x)
            return RefReg(r, ex / (2 * r) + 2 * np.abs(r), T.dpow(a.dim, Fr(1, 2)), a.taint or bool(np.any(x <= 0)) or _insig(x, ex))
        if op == "cbrt":
            r = np.cbrt(x)
            return RefReg(r, ex / (3 * r * r) + 4 * np.abs(r), T.dpow(a.dim, Fr(1, 3)), a.taint or bool(np.any(x == 0)) or _insig(x, ex))
        if op == "square":
            r = x * x
            return RefReg(r, 2 * ex * np.abs(x) + 64 * EPS * ex * ex + 2 * np.abs(r), T.dpow(a.dim, 2), a.taint)
        if op == "reciprocal":
            r = 1 / x
            return RefReg(r, ex / (x * x) + 2 * np.abs(r), T.dpow(a.dim, -1), a.taint or bool(np.any(x == 0)) or _insig(x, ex))
    raise ValueError(op)


def ref_pow(a, p):
    x, ex = a.si, a.err
    pf = float(p)
    with np.errstate(all="ignore"):
        if p == 0:
            return RefReg(np.ones_like(x), np.ones_like(x), T.ZERO, a.taint)
        r = np.power(x, pf)
        taint = a.taint or (p.denominator != 1 and bool(np.any(x <= 0))) or (p < 0 and bool(np.any(x == 0))) or (p != 1 and _insig(x, ex))
        return RefReg(r, abs(pf) * np.abs(r / x) * ex + (4 + 2 * abs(pf)) * np.abs(r), T.dpow(a.dim, p), taint)


def ref_red(op, a):
    x, ex = a.si, a.err
    n = x.size
    with np.errstate(all="ignore"):
        if op in ("sum", "npsum"):
            return RefReg(x.sum(), ex.sum() + n * np.abs(x).sum(), a.dim, a.taint)
        if op == "mean":
            return RefReg(x.mean(), (ex.sum() + n * np.abs(x).sum()) / n, a.dim, a.taint)
        if op == "add.reduce":
            return RefReg(np.add.reduce(x), np.add.reduce(ex) + x.shape[0] * np.add.reduce(np.abs(x)), a.dim, a.taint)
        if op == "add.accumulate":
            return RefReg(np.add.accumulate(x), np.add.accumulate(ex) + x.shape[0] * np.add.accumulate(np.abs(x)), a.dim, a.taint)
        if op == "cumsum":
            return RefReg(np.cumsum(x), np.cumsum(ex) + n * np.cumsum(np.abs(x)), a.dim, a.taint)
        if op in ("max", "min"):
            return RefReg(getattr(x, op)(), ex.max(), a.dim, a.taint)
        if op == "ptp":
            return RefReg(x.max() - x.min(), 2 * ex.max() + np.abs(x).max(), a.dim, a.taint)
        if op == "std":
            r = x.std()
            return RefReg(r, 4 * (ex.max() + n * np.abs(x).max()), a.dim, a.taint)
        if op == "prod":
            r = x.prod()
            rel = np.where(x != 0, ex / np.abs(x), np.inf).sum() if r != 0 else 0.0
            return RefReg(r, np.abs(r) * (rel + 2 * n) if r != 0 else np.prod(np.abs(x) + ex * EPS * 64) / EPS, T.dpow(a.dim, n), a.taint)
        if op == "multiply.reduce":
            r = np.multiply.reduce(x)
            relv = np.where(x != 0, ex / np.abs(x), 0).sum(axis=0)
            z = bool(np.any(x == 0))
            return RefReg(r, np.abs(r) * (relv + 2 * x.shape[0]), T.dpow(a.dim, x.shape[0]), a.taint or z)
    raise ValueError(op)


def lib_bin(op, a, b):
    import operator as o

    f = {"add": o.add, "sub": o.sub, "mul": o.mul, "div": o.truediv, "mod": o.mod, "floordiv": o.floordiv,
         "npmul": np.multiply, "npdiv": np.divide, "maximum": np.maximum, "minimum": np.minimum, "hypot": np.hypot,
         "fmod": np.fmod, "arctan2": np.arctan2, "fmax": np.fmax, "fmin": np.fmin,
         "lt": o.lt, "le": o.le, "gt": o.gt, "ge": o.ge, "eq": o.eq, "ne": o.ne}[op]
    return f(a, b)


def lib_un(op, a):
    import operator as o

    return {"neg": o.neg, "pos": o.pos, "abs": abs, "sqrt": np.sqrt, "cbrt": np.cbrt, "square": np.square,
            "reciprocal": np.reciprocal, "npabs": np.absolute, "fabs": np.fabs}[op](a)


def lib_red(op, a):
    return {"sum": lambda q: q.sum(), "mean": lambda q: q.mean(), "npsum": np.sum, "add.reduce": np.add.reduce,
            "add.accumulate": np.add.accumulate, "cumsum": np.cumsum, "max": lambda q: q.max(), "min": lambda q: q.min(),
            "prod": lambda q: q.prod(), "multiply.reduce": np.multiply.reduce, "std": lambda q: q.std(),
            "ptp": np.ptp}[op](a)


def _si_of(q):
    """(SI magnitudes, dimvec) denoted by a library result"""
    u = getattr(q, "units", None)
    if u is None:
        return np.asarray(q, dtype=float), T.ZERO
    return np.asarray(q.d if hasattr(q, "d") else q, dtype=float) * float(u.base_value), R.dimvec_of(u.dimensions)


def execute(case, part, leaf_units=None, check=True):
    """run the program in unyt (and the reference); returns (violations, final library registers)"""
    from unyt import unyt_array, unyt_quantity

    out = []
    prog = case["prog"]
    reg = _dy_registry() if case["dyadic"] else None
    L, F = [], []  # library / reference registers
    li = 0
    ops_seen = []

    def judge(idx, what, left_unit=None):
        if not check:
            return
        q, r = L[idx], F[idx]
        try:
            si, dim = _si_of(q)
        except Exception as e:
            out.append((f"C04:unreadable-result:{what}", {"error": repr(e)[:200], "prog": prog}))
            return
        if dim != r.dim:
            out.append((f"C04:wrong-dimension:{what}", {"got": T.dim_name(dim), "want": T.dim_name(r.dim), "unit": str(getattr(q, 'units', None)), "prog": prog}))
            return
        if np.shape(si) != r.si.shape:
            out.append((f"C04:wrong-shape:{what}", {"got": list(np.shape(si)), "want": list(r.si.shape), "prog": prog}))
            return
        if left_unit is not None and hasattr(q, "units"):
            if not (q.units == left_unit and abs(float(q.units.base_value) / float(left_unit.base_value) - 1) < 1e-12):
                out.append((f"C04:sum-not-in-left-unit:{what}", {"got": str(q.units), "want": str(left_unit), "prog": prog}))
        if r.taint:
            part.count("tainted register (discontinuity / domain edge): value not judged")
            return
        with np.errstate(all="ignore"):
            tol = 64 * EPS * (r.err + 4 * np.abs(r.si)) + 1e-300
            okm = (np.abs(si - r.si) <= tol) | (np.isnan(si) & np.isnan(r.si)) | ((si == r.si))
            big = ~np.isfinite(r.si) | (np.abs(r.si) > 1e200) | ~np.isfinite(tol)
        if not bool(np.all(okm | big)):
            k = int(np.argmin((okm | big).ravel()))
            out.append((f"C04:wrong-value:{what}", {"got_SI": float(np.ravel(si)[k]), "want_SI": float(np.ravel(r.si)[k]),
                                                    "tol": float(np.ravel(tol)[k]), "unit": str(getattr(q, 'units', None)), "prog": prog}))

    for ins in prog:
        if out:
            break  # everything downstream of a wrong register is derived garbage: one root cause per program
        kind = ins[0]
        part.ev()
        try:
            if kind == "leaf":
                _, u, vals, shape = ins
                arr = np.array(vals, dtype=float).reshape(shape)
                if leaf_units is not None:
                    ratio = _oracle_unit(u)[0] / _oracle_unit(leaf_units[li])[0]  # a power of two: exact
                    arr = arr * ratio
                    u = leaf_units[li]
                li += 1
                q = unyt_quantity(float(arr), u, registry=reg) if not shape else unyt_array(arr.copy(), u, registry=reg)
                s_or, d = _oracle_unit(u)
                s = float(q.units.base_value)  # the library's own atomic scales (their accuracy is C02's subject)
                if not (1e-80 < abs(s_or) < 1e80):
                    part.count("excluded_range")
                    break
                if not abs(s / s_or - 1) < 1e-3:
                    out.append(("C04:leaf-scale-disagrees-with-table", {"unit": u, "library": s, "table": s_or}))
                    break
                L.append(q)
                F.append(RefReg(arr * s, 4 * np.abs(arr * s), d))
                judge(len(L) - 1, "leaf")
                continue
            what = f"{kind}:{ins[1]}"
            ops_seen.append(what)
            if kind == "bad":
                _, op, i, j = ins
                try:
                    r = lib_bin(op, L[i], L[j])
                except Exception:
                    part.count("invalid step refused")
                    continue
                out.append((f"C04:no-raise:{op}", {"a": str(L[i].units), "b": str(getattr(L[j], 'units', None)), "got": repr(r)[:100], "prog": prog}))
                continue
            if kind == "bin":
                _, op, i, j = ins
                if op in ("divmod", "npdivmod"):
                    qq, rr = divmod(L[i], L[j]) if op == "divmod" else np.divmod(L[i], L[j])
                    L.append(qq); F.append(ref_bin("floordiv", F[i], F[j])); judge(len(L) - 1, what + ":quotient")
                    L.append(rr); F.append(ref_bin("mod", F[i], F[j])); judge(len(L) - 1, what + ":remainder")
                    continue
                L.append(lib_bin(op, L[i], L[j]))
                F.append(ref_bin(op, F[i], F[j]))
                left = getattr(L[i], "units", None) if op in ("add", "sub") else None
                judge(len(L) - 1, what, left)
            elif kind == "cmp":
                _, op, i, j = ins
                got = np.asarray(lib_bin(op, L[i], L[j]))
                a, b = F[i], F[j]
                with np.errstate(all="ignore"):
                    want = np.asarray(lib_bin(op, a.si, b.si))
                    close = np.abs(a.si - b.si) <= 256 * EPS * (a.err + b.err + np.abs(a.si) + np.abs(b.si))
                if not (a.taint or b.taint):
                    if got.shape != want.shape or not bool(np.all((got == want) | close)):
                        out.append((f"C04:wrong-comparison:{op}", {"got": got.tolist(), "want": want.tolist(), "prog": prog}))
            elif kind == "iop":
                _, op, i, j = ins
                q = L[i]
                left = getattr(q, "units", None)
                if op == "iadd":
                    q += L[j]
                elif op == "isub":
                    q -= L[j]
                elif op == "imul":
                    q *= L[j]
                else:
                    q /= L[j]
                L[i] = q
                F[i] = ref_bin(op, F[i], F[j])
                judge(i, what, left if op in ("iadd", "isub") else None)
            elif kind == "out":
                _, op, i, j, k = ins
                f = {"add": np.add, "sub": np.subtract, "mul": np.multiply, "div": np.divide, "maximum": np.maximum}[op]
                if not hasattr(L[k], "units"):
                    # a bare ndarray buffer cannot carry units: not an instruction the claim covers
                    part.count("out= into a bare buffer replaced by plain assignment")
                    f0 = {"add": np.add, "sub": np.subtract, "mul": np.multiply, "div": np.divide, "maximum": np.maximum}[op]
                    L[k] = f0(L[i], L[j])
                    F[k] = ref_bin(op, F[i], F[j])
                    judge(k, what + ":plain")
                    L.append(L[k].copy()); F.append(F[k])
                    continue
                res = f(L[i], L[j], out=L[k])
                res = res.copy()  # the returned object may alias the buffer; later in-place steps must not reach it
                newref = ref_bin({"sub": "sub", "add": "add", "mul": "mul", "div": "div", "maximum": "maximum"}[op], F[i], F[j])
                F[k] = newref
                if i == k:
                    pass
                judge(k, what + ":buffer")
                L.append(res)
                F.append(newref)
                judge(len(L) - 1, what + ":returned")
            elif kind == "un":
                _, op, i = ins
                L.append(lib_un(op, L[i]))
                F.append(ref_un(op, F[i]))
                judge(len(L) - 1, what)
            elif kind == "pow":
                _, form, i, p = ins
                p = Fr(p)
                if form == "op":
                    e = p.numerator if p.denominator == 1 else p
                    r = L[i] ** (e if not isinstance(e, Fr) else float(e))
                elif form == "op_float":
                    r = L[i] ** float(p)
                elif form in ("op_array_exp", "np.power_array_exp"):
                    # the exponent spelled as an array of equal numbers (same shape as an array base; two entries for a scalar
                    # base, of which the first result is kept): the unit must follow the exponent just the same
                    f_ = (lambda b_, e_: b_ ** e_) if form == "op_array_exp" else np.power
                    if np.shape(L[i]) == ():
                        r = f_(L[i], np.array([float(p), float(p)]))[0]
                    else:
                        r = f_(L[i], np.full(np.shape(L[i]), float(p)))
                else:
                    r = np.power(L[i], float(p))
                L.append(r)
                F.append(ref_pow(F[i], p))
                judge(len(L) - 1, f"pow:{form}")
            elif kind == "red":
                _, op, i = ins
                L.append(lib_red(op, L[i]))
                F.append(ref_red(op, F[i]))
                judge(len(L) - 1, what)
            elif kind == "trig":
                _, fn, i = ins
                L.append(getattr(np, fn)(L[i]))
                x, ex = F[i].si, F[i].err
                with np.errstate(all="ignore"):
                    r = getattr(np, fn)(x)
                    d = 1.0 if fn != "tan" else 1 + r * r
                F.append(RefReg(r, (ex + 4 * np.abs(x)) * d + 4 * np.abs(r), T.ZERO, F[i].taint))
                judge(len(L) - 1, what)
            elif kind == "scal":
                _, op, i, c = ins
                cref = RefReg(np.float64(c), 0.0, T.ZERO)
                if op == "mul":
                    L.append(L[i] * c); F.append(ref_bin("mul", F[i], cref))
                elif op == "rmul":
                    L.append(c * L[i]); F.append(ref_bin("mul", cref, F[i]))
                elif op == "div":
                    L.append(L[i] / c); F.append(ref_bin("div", F[i], cref))
                else:
                    L.append(c / L[i]); F.append(ref_bin("div", cref, F[i]))
                judge(len(L) - 1, what)
            elif kind == "dot":
                _, form, i, j = ins
                a, b = L[i], L[j]
                if form == "method" and not hasattr(a, "units"):
                    form = "np.dot"  # ndarray.dot of a bare array is numpy's own method, not unyt's
                if form == "method_out" and not hasattr(a, "units"):
                    form = "np.dot_out"
                buf = None
                if form.endswith("_out"):
                    from unyt import unyt_array as _ua

                    # a buffer labelled with an unrelated unit: the call has to fill it AND label it with the product's unit
                    buf = _ua(np.zeros(()), "s", registry=getattr(getattr(a, "units", None), "registry", None) or getattr(getattr(b, "units", None), "registry", None))
                r = {"np.dot": lambda: np.dot(a, b), "matmul": lambda: a @ b, "method": lambda: a.dot(b),
                     "vdot": lambda: np.vdot(a, b), "inner": lambda: np.inner(a, b),
                     "method_out": lambda: a.dot(b, out=buf), "np.dot_out": lambda: np.dot(a, b, out=buf)}[form]()
                x, y = F[i], F[j]
                if buf is not None:
                    r = r.copy() if hasattr(r, "copy") else r
                L.append(r)
                F.append(RefReg(np.dot(x.si, y.si), np.dot(x.err, np.abs(y.si)) + np.dot(np.abs(x.si), y.err) + 64 * EPS * np.dot(x.err, y.err) + len(x.si) * np.dot(np.abs(x.si), np.abs(y.si)),
                                T.dmul(x.dim, y.dim), x.taint or y.taint))
                judge(len(L) - 1, what)
                if buf is not None:
                    L.append(buf)
                    F.append(F[-1])
                    judge(len(L) - 1, what + ":buffer")
            elif kind == "outer":
                _, op, i, j = ins
                a, b = L[i], L[j]
                x, y = F[i], F[j]
                if op == "add.outer":
                    r = np.add.outer(a, b)
                    rr = np.add.outer(x.si, y.si)
                    fr = RefReg(rr, np.add.outer(x.err, y.err) + np.abs(rr), x.dim, x.taint or y.taint)
                else:
                    r = np.multiply.outer(a, b) if op == "multiply.outer" else np.outer(a, b)
                    rr = np.multiply.outer(x.si, y.si)
                    fr = RefReg(rr, np.multiply.outer(x.err, np.abs(y.si)) + np.multiply.outer(np.abs(x.si), y.err) + 64 * EPS * np.multiply.outer(x.err, y.err) + np.abs(rr), T.dmul(x.dim, y.dim), x.taint or y.taint)
                L.append(r)
                F.append(fr)
                judge(len(L) - 1, what)
        except Tainted:
            break
        except Exception as e:
            esc = core.escaped_from_library(e)
            if esc is None and not isinstance(e, (ZeroDivisionError, FloatingPointError)):
                raise
            if any(isinstance(x, int) and x < len(F) and F[x].dim == T.TEMP for x in ins[2:4]):
                part.count("refusal on a pure-temperature operand (C08's subject)")
                break
            out.append((f"C04:unexpected-raise:{kind}:{ins[1]}:{type(e).__name__}", {"error": str(e)[:200], "prog": prog, "at": list(ins)[:4]}))
            break
    return out, L, ops_seen


def _leaf_units(case):
    return [ins[1] for ins in case["prog"] if ins[0] == "leaf"]


def _dy_alternative(u, k):
    """another dyadic spelling of the same dimension for leaf k (deterministic)"""
    out = []
    for t in u.split("*") if "**" not in u or True else [u]:
        out.append(t)
    # tokens are name or name**exp; swap each name for the next one in its dimension's pool
    toks = []
    cur = ""
    i = 0
    while i < len(u):
        if u[i] == "*" and u[i:i + 2] != "**" and (i == 0 or u[i - 1] != "*"):
            toks.append(cur); cur = ""
        else:
            cur += u[i]
        i += 1
    toks.append(cur)
    res = []
    for t in toks:
        nm, _, e = t.partition("**")
        for d, lst in DYADIC.items():
            pool = [n for n, _ in lst] + [SI_NAME[d]]
            if nm in pool:
                nm = pool[(pool.index(nm) + 1 + k) % len(pool)]
                break
        res.append(nm + ("**" + e if e else ""))
    return "*".join(res)


def _reset_unit_rule_caches():
    """unyt memoises its unit rules in process-wide lru caches keyed by *approximate* Unit equality, so a unit
    whose scale is one ulp off (e.g. (u**(1/3))**3 from an earlier case) can seed the rule used later for the
    exact unit.  The bit-exact comparison needs each case to start from a clean slate."""
    import unyt.array as UA

    for name in dir(UA):
        f = getattr(UA, name)
        if callable(f) and hasattr(f, "cache_clear"):
            f.cache_clear()


def judge_case(case, part):
    if case["dyadic"]:
        _reset_unit_rule_caches()
    out, L, ops = execute(case, part)
    units = _leaf_units(case)
    nbin = sum(1 for i in case["prog"] if i[0] in ("bin", "iop", "out", "dot", "outer", "cmp"))
    if len(set(units)) >= 2 and nbin >= 1:
        part.nt((tuple(sorted(set(ops))), len(units), case["dyadic"]))
    for o in ops:
        part.count("op " + o)
    part.count("programs dyadic" if case["dyadic"] else "programs ordinary")
    if out or not case["dyadic"]:
        return out
    # metamorphic, bit-exact: re-express every leaf in another power-of-64 unit
    alt = [_dy_alternative(u, k) for k, u in enumerate(units)]
    if alt == units:
        return out
    _reset_unit_rule_caches()
    o2, L2, _ = execute(case, core.Part(), leaf_units=alt, check=False)
    if o2:
        out.append(("C04:metamorphic:raises-after-reexpression", {"units": units, "alt": alt, "detail": o2[0][0], "prog": case["prog"]}))
        return out
    _reset_unit_rule_caches()
    roots = any(i[0] == "un" and i[1] in ("sqrt", "cbrt") or i[0] == "pow" and Fr(i[3]).denominator != 1 or i[0] == "red" and i[1] == "std" or i[0] == "bin" and i[1] == "hypot" for i in case["prog"])
    if roots:
        part.count("metamorphic comparison skipped (fractional powers: unit scales not exactly representable)")
        return out
    for k, (a, b) in enumerate(zip(L, L2)):
        if not hasattr(a, "units") or not hasattr(b, "units"):
            same = np.array_equal(np.asarray(a), np.asarray(b), equal_nan=True)
            if not same:
                out.append(("C04:metamorphic:bare-result-changed", {"reg": k, "a": repr(a)[:100], "b": repr(b)[:100], "units": units, "alt": alt, "prog": case["prog"]}))
                break
            continue
        # compare the SI magnitudes both runs denote; all scales are powers of two, so this is exact
        if R.dimvec_of(a.units.dimensions) != R.dimvec_of(b.units.dimensions):
            out.append(("C04:metamorphic:dimension-changed", {"reg": k, "a": str(a.units), "b": str(b.units), "prog": case["prog"]}))
            break
        bb = b
        x = np.asarray(a, dtype=float) * float(a.units.base_value)
        y = np.asarray(b, dtype=float) * float(b.units.base_value)
        if roots:
            with np.errstate(all="ignore"):
                same = bool(np.all((np.abs(x - y) <= 64 * EPS * np.maximum(np.abs(x), np.abs(y))) | (np.isnan(x) & np.isnan(y)) | (x == y)))
        else:
            same = np.array_equal(x, y, equal_nan=True)
        if not same:
            out.append((f"C04:metamorphic:{'inexact' if not roots else 'differs'}", {"reg": k, "a": repr(a)[:120], "b_converted": repr(bb)[:120], "units": units, "alt": alt, "prog": case["prog"]}))
            break
    else:
        part.count("metamorphic bit-exact agreement")
    return out


def _case_fn(case, part):
    out = judge_case(case, part)
    if len(part.samples) < 1:
        part.sample({"program": case["prog"][:8], "dyadic": case["dyadic"]})
    return out


def part_random(payload):
    known = core.Known("C04")
    part = core.Part()
    core.hyp_explore(part, known, program(), _case_fn, payload["n"], payload["seed"], label="C04:programs")
    return part


ANGLE_UNITS = ["rad", "degree", "arcmin", "arcsec", "mas", "mrad", "urad", "lat", "lon", "vf_bearing", "kvf_bearing"]


def part_trig(payload):
    """angle-aware functions over every angle spelling, incl. the offset ones (lat, lon, a custom offset angle): the value is
    f(angle in radians by the independent table), and re-expressing the angle in another unit changes nothing"""
    import math

    import unyt.dimensions as D
    from unyt import Unit, unyt_array
    from unyt.unit_registry import UnitRegistry

    known = core.Known("C04")
    part = core.Part()
    reg = UnitRegistry()
    reg.add("vf_bearing", 1.0 / 8, D.angle, offset=16.0, prefixable=True)  # radians = (value - 16) / 8

    def rad_of(u, v):
        if u.endswith("vf_bearing"):
            k = 1000.0 if u.startswith("k") else 1.0
            return (v * k - 16.0) / 8.0 if k == 1.0 else None
        sc, _, off = R.atom(u)
        return float(sc) * (v - float(off))

    fns = {"sin": (np.sin, math.sin), "cos": (np.cos, math.cos), "tan": (np.tan, math.tan), "sin(out=)": (lambda q: (lambda o: (np.sin(q, out=o), o)[1])(np.zeros(np.shape(q))), math.sin),
           "cos*1": (lambda q: np.cos(q * 1.0), math.cos), "sin(scalar)": (lambda q: np.array([float(np.sin(x)) for x in q]), math.sin)}
    for u in payload["units"]:
        for vals in payload["values"]:
            rads = [rad_of(u, v) for v in vals]
            if any(r is None for r in rads):
                continue
            q = unyt_array(np.array(vals, dtype=float), Unit(u, registry=reg))
            for fname, (lf, rf) in fns.items():
                part.ev()
                try:
                    got = np.asarray(lf(q), dtype=float)
                except Exception as e:
                    core.classify(known, part, f"C04:trig-raises:{fname}:{'offset' if u in ('lat', 'lon', 'vf_bearing') else 'scaled'}", {"unit": u, "values": vals, "error": f"{type(e).__name__}: {e}"[:160]})
                    continue
                want = np.array([rf(r) for r in rads])
                ok = np.all(np.abs(got - want) <= 1e-9 * (1 + np.abs(want)) * np.maximum(1.0, np.abs(rads)))
                if fname.startswith("tan"):
                    ok = np.all((np.abs(got - want) <= 1e-6 * (1 + want * want) * np.maximum(1.0, np.abs(rads))) | (np.abs(np.cos(rads)) < 1e-6))
                if not ok:
                    core.classify(known, part, f"C04:trig-value:{fname}:{'offset' if u in ('lat', 'lon', 'vf_bearing') else 'scaled'}-angle-unit",
                                  {"unit": u, "values": vals, "got": got.tolist(), "want": want.tolist()})
                else:
                    part.nt(("trig", u, fname))
                # re-expression
                for u2 in payload["units"]:
                    if u2 == u or u2.startswith("k"):
                        continue
                    try:
                        q2 = q.to(Unit(u2, registry=reg))
                        got2 = np.asarray(lf(q2), dtype=float)
                    except Exception:
                        continue
                    part.ev()
                    tol = 1e-9 * (1 + np.abs(got)) * np.maximum(1.0, np.abs(rads)) if not fname.startswith("tan") else 1e-6 * (1 + got * got) * np.maximum(1.0, np.abs(rads))
                    if not np.all((np.abs(got2 - got) <= tol) | (np.abs(np.cos(rads)) < 1e-6)):
                        core.classify(known, part, f"C04:trig-depends-on-unit:{fname}", {"unit": u, "re-expressed in": u2, "values": vals, "first": got.tolist(), "second": got2.tolist()})
    if len(part.samples) < 2:
        part.sample({"angle units": payload["units"], "functions": sorted(fns)})
    return part


def part_power_sweep(payload):
    """quantities raised to *arrays* of exponents that are not all equal: either refused, or every element is the SI magnitude of
    the base raised to its own exponent (possible only for pure-number bases, whatever scale their unit carries: percent, km/m)"""
    from unyt import unyt_array, unyt_quantity

    known = core.Known("C04")
    part = core.Part()
    bases = [("dimensionless", 1.0), ("percent", 0.01), ("km/m", 1000.0), ("mm/km", 1e-6), ("cm/m", 0.01), ("m", None), ("kg/s", None), ("rad", None)]
    exps = [[1.0, 2.0], [2.0, 0.5], [-1.0, 1.0], [3.0, 3.0, 2.0], [0.0, 1.0, 2.0], [2.0, 2.0]]
    vals = payload["values"]
    forms = {"**": lambda b, e: b ** e, "np.power": lambda b, e: np.power(b, e), "np.float_power": lambda b, e: np.float_power(b, e), "**=": lambda b, e: b.__ipow__(e),
             "np.power(out=)": lambda b, e: np.power(b, e, out=np.zeros(np.broadcast(b, e).shape)), "** (exponent a dimensionless quantity)": lambda b, e: b ** unyt_array(e, "dimensionless")}
    for u, sc in bases:
        for e in exps:
            for shape in ("array", "scalar"):
                for fname, fn in forms.items():
                    if shape == "scalar" and fname == "**=":
                        continue
                    x = np.array(vals[: len(e)], dtype=float)
                    b = unyt_array(x.copy(), u) if shape == "array" else unyt_quantity(float(x[0]), u)
                    part.ev()
                    try:
                        r = fn(b, np.array(e))
                    except Exception as ex:
                        part.count(f"power sweep: refused ({type(ex).__name__})")
                        part.nt(("power-sweep-refused", u, tuple(e), shape, fname))
                        continue
                    uniform = len(set(e)) == 1
                    xs = (x if shape == "array" else np.full(len(e), x[0]))
                    if sc is None and not uniform:
                        core.classify(known, part, f"C04:power-sweep:non-uniform-exponents-accepted-for-dimensional-base:{fname}", {"unit": u, "exponents": e, "shape": shape, "got": repr(r)[:120]})
                        continue
                    if sc is None:
                        continue  # uniform exponents on dimensional bases are the random programs' subject
                    ru = getattr(r, "units", None)
                    if ru is not None and not ru.is_dimensionless:
                        core.classify(known, part, f"C04:power-sweep:dimension:{fname}", {"unit": u, "exponents": e, "shape": shape, "got": repr(r)[:120]})
                        continue
                    got = np.asarray(r, dtype=float) * (float(ru.base_value) if ru is not None else 1.0)
                    want = np.power(xs * sc, np.array(e))
                    if got.shape != want.shape or not np.all(np.abs(got - want) <= 1e-12 * np.abs(want)):
                        core.classify(known, part, f"C04:power-sweep:wrong-value:{fname}:{'uniform' if uniform else 'non-uniform'}-exponents",
                                      {"unit": u, "values": xs.tolist(), "exponents": e, "shape": shape, "got_pure_number": got.tolist(), "want": want.tolist(), "result": repr(r)[:120]})
                    else:
                        part.nt(("power-sweep", u, tuple(e), shape, fname))
    if len(part.samples) < 1:
        part.sample({"bases": [b_[0] for b_ in bases], "exponent arrays": exps, "forms": sorted(forms)})
    return part


def run(ctx):
    ctx.rule = (
        "Hypothesis straight-line programs (2-4 leaves, up to 10 further steps; ~60 operation spellings: + - * / // % divmod-free "
        "same-dimension ufuncs, powers and roots, reductions/accumulate/outer, dot family, trig of angles, in-place, out=, bare "
        "scalars, comparisons, plus deliberately invalid mixed-dimension steps) over leaves whose units are constructed per "
        "dimension (atomic, prefixed, named derived units, compounds; 1 in 4 programs in a power-of-64 custom registry). Every "
        "register is compared with a reference interpreter on SI magnitudes (independent scales, propagated error bound); "
        "dyadic programs are re-run with every leaf re-expressed and compared bit for bit. Exhaustive side sweep: sin/cos/tan (call, out=, "
        "scalar, after *1) over 11 angle spellings incl. the offset ones (lat, lon, a custom offset angle) x 4 value sets, against math.* of the "
        "table's radians and under re-expression in every other angle unit. non-trivial = distinct (set of "
        "operation spellings, #leaves, registry kind) of programs with >=2 distinct leaf units and >=1 combining operation"
    )
    ctx.assumptions = [
        "scale of a *result* unit is read from the library (its consistency with the expression is C02/C05's subject); leaf scales come from vf/oracle/table.py",
        "values are dyadic rationals k/16; registers downstream of a discontinuity hit (mod/floor within 1e-7 of a boundary, roots of non-positive values) are not value-judged",
        "tolerance = 64 eps x propagated forward error bound",
        "exp/log/hyperbolic/rounding family and floor-division of different dimensions are outside the claim and not generated",
    ]
    tv = [[0.0, 30.0, -45.0, 80.0], [1.5, -2.25, 0.125, 3.0], [90.0, 180.0, -90.0, 10.0], [(ctx.seed % 7) + 0.5, -(ctx.seed % 11) - 0.25, 60.0, 17.0]]
    ctx.merge(core.pmap(MOD, "part_trig", [{"units": ANGLE_UNITS, "values": [v]} for v in tv]))
    ctx.merge(core.pmap(MOD, "part_power_sweep", [{"values": v} for v in ([50.0, 20.0, 4.0], [0.5, 8.0, 3.0], [2.0, 2.0, 2.0])]))
    n = ctx.pick(16000, 320000)
    ctx.merge(core.pmap(MOD, "part_random", [{"n": n // 16, "seed": ctx.seed * 1000 + i} for i in range(16)]))


def replay(ctx, data):
    d = data["detail"]
    case = d["case"] if "case" in d else {"dyadic": False, "prog": d["prog"]}
    case["prog"] = [tuple(i) for i in case["prog"]]
    for key, det in judge_case(case, ctx):
        ctx.violation(key, det)
