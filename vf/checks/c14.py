"""C14 -- every documented unit name resolves to exactly one, correctly scaled unit.

Exhaustive enumeration; oracle = independent splitter (vf.oracle.resolve) over the
hand-written table (vf.oracle.table)."""

from vf import core
from vf.oracle import resolve as R
from vf.oracle import table as T

MICRO = ("u", "µ", "μ")
MOD = "vf.checks.c14"


def part_double_prefix(payload):
    """a name that already carries a prefix is not prefixable: p1+p2+base must be rejected unless the oracle has a
    legitimate reading for the whole string -- also after the inner name has been resolved (and memoised) in that registry"""
    from unyt import Unit
    from unyt.exceptions import UnitParseError
    from unyt.unit_registry import UnitRegistry

    known = core.Known("C14")
    part = core.Part()
    reg = UnitRegistry()
    for p2, b in payload["inner"]:
        inner = p2 + b
        if not R.readings(inner) or R.readings(inner)[0][1] != p2:
            continue
        for registry in (None, reg):
            try:
                Unit(inner, registry=registry)  # resolve (and let the registry memoise) the singly-prefixed name first
            except UnitParseError:
                continue
            for p1 in T.PREFIXES:
                s = p1 + inner
                if R.readings(s):
                    continue
                part.ev()
                part.nt(("double-prefix", s))
                try:
                    u = Unit(s, registry=registry)
                except UnitParseError:
                    continue
                except Exception as e:
                    core.classify(known, part, f"C14:double-prefix-escapes:{type(e).__name__}", {"name": s})
                    continue
                core.classify(known, part, f"C14:double-prefix-accepted:{b}", {"name": s, "registry": "default" if registry is None else "custom", "got": _unit_facts(u)})
        if len(part.samples) < 1:
            part.sample({"inner": inner, "outer examples": ["k" + inner, "m" + inner], "expected": "UnitParseError"})
    return part


def _unit_facts(u):
    return (float(u.base_value), R.dimvec_of(u.dimensions), float(u.base_offset))


def _close(a, b, tol):
    if a == b:
        return True
    if b == 0:
        return abs(a) <= tol
    return abs(a / b - 1) <= tol


def _rootkey(name):
    """Root-cause-shaped class of a name, for known-findings keys."""
    if "°" in name:
        return "degree-sign:" + ("short" if len(name) <= 3 else "word-prefixed")
    return "name=" + name


def run(ctx):
    import unyt
    from unyt import Unit
    from unyt._unit_lookup_table import inv_name_alternatives
    from unyt.exceptions import UnitParseError
    from unyt.unit_registry import UnitRegistry
    from unyt.unit_systems import add_symbols

    ctx.rule = (
        "exhaustive over (a) every key of unyt's name table read as data, (b) every public "
        "attribute of unyt.unit_symbols and every Unit attribute of the unyt namespace, (c) every "
        "prefix-spelling x (symbol|alias) string, through Unit(str), attribute, custom-registry "
        "namespace and inside 'name**2/s'; oracle: independent prefix/alias splitter over a "
        "hand-written table. non-trivial = name that is not itself a table symbol (alias, "
        "prefixed, title-case, unicode) or a string with more than one reading / a forbidden prefix"
    )
    ctx.exhaustive = True
    ctx.assumptions = [
        "name inventory is read from unyt as data (inv_name_alternatives keys, namespace attributes)",
        "expected readings come from vf/oracle/table.py (hand-written), never from unyt's tables",
        "prefixed forms are compared with prefix x the library's own base scale at 1e-15 so that "
        "table-row value errors are left to C02",
    ]
    base_cache = {}

    def lib_base(sym):
        if sym not in base_cache:
            base_cache[sym] = _unit_facts(Unit(sym))
        return base_cache[sym]

    def expect(name):
        rs = R.readings(name)
        if not rs:
            return None
        kind, p, base = rs[0]
        bs, bd, bo = lib_base(base)
        pv = float(T.PREFIXES[p][0]) if p else 1.0
        return kind, p, base, (bs * pv, bd, bo)

    def judge(name, u, how):
        """compare unit *u* obtained via *how* with the oracle reading of *name*."""
        ex = expect(name)
        ctx.ev()
        if ex is None:
            ctx.violation(f"C14:oracle-has-no-reading:{name}", {"name": name, "how": how})
            return
        kind, p, base, (s, d, o) = ex
        if kind != "symbol":
            ctx.nt((name, how))
        got = _unit_facts(u)
        # oracle table row itself (dimension / offset / prefixability are exact data)
        row = T.ROWS[base]
        if got[1] != row["dim"]:
            ctx.violation(f"C14:dimension:{base}", {"name": name, "how": how, "got": got[1],
                                                      "want": row["dim"]})
        elif not _close(got[0], s, 1e-14):
            ctx.violation(f"C14:scale:{_rootkey(name)}", {"name": name, "how": how, "got": got[0],
                                                         "want_prefix_x_base": s, "reading": [kind, p, base]})
        elif not _close(got[2], float(row["offset"]), 1e-12):
            ctx.violation(f"C14:offset:{base}", {"name": name, "how": how, "got": got[2]})

    names = list(inv_name_alternatives.keys())
    unresolvable = set()
    # (1) Unit(name) for every documented name, alone and inside a compound
    for i, name in enumerate(names):
        try:
            u = Unit(name)
        except UnitParseError as e:
            ctx.ev()
            ctx.nt((name, "str"))
            ctx.violation(f"C14:unresolvable:{_rootkey(name)}", {"name": name, "error": str(e)[:200]})
            unresolvable.add(name)
            continue
        judge(name, u, "str")
        if i % 331 == 0:
            ctx.sample({"name": name, "unit": str(u), "base_value": float(u.base_value),
                        "oracle_reading": [str(x) for x in R.readings(name)[0]]})
        if name == "":
            continue
        try:
            uc = Unit(f"{name}**2/s")
        except UnitParseError as e:
            ctx.ev()
            ctx.violation(f"C14:compound-unresolvable:{_rootkey(name)}", {"name": name, "error": str(e)[:200]})
            continue
        ctx.ev()
        ex = expect(name)
        if ex is not None:
            s2 = ex[3][0] ** 2
            d2 = T.ddiv(T.dpow(ex[3][1], 2), T.TIME)
            got = _unit_facts(uc)
            if got[1] != d2 or not _close(got[0], s2, 1e-13):
                ctx.violation(f"C14:compound:{_rootkey(name)}", {"name": name, "got": got, "want": (s2, d2)})

    # (2) attributes
    import unyt.unit_symbols as us

    reg = UnitRegistry()
    ns = {}
    add_symbols(ns, reg)
    nattr = 0
    for aname, obj in vars(us).items():
        if aname.startswith("_") or not isinstance(obj, Unit):
            continue
        nattr += 1
        judge(aname, obj, "unit_symbols-attr")
        if aname in ns:
            judge(aname, ns[aname], "custom-namespace")
            if ns[aname].registry is not reg:
                ctx.violation(f"C14:namespace-registry:{aname}", {"name": aname})
        else:
            ctx.violation(f"C14:namespace-missing:{aname}", {"name": aname})
    ntop = 0
    for aname, obj in vars(unyt).items():
        if aname.startswith("_") or not isinstance(obj, Unit):
            continue
        ntop += 1
        judge(aname, obj, "unyt-attr")
    # every documented identifier-like name must be reachable as an attribute
    for name in names:
        if name.isidentifier() and not hasattr(us, name):
            ctx.ev()
            ctx.violation(f"C14:attr-missing:{name}", {"name": name})
    ctx.count("unit_symbols attributes", nattr)
    ctx.count("unyt Unit attributes", ntop)

    # (3) ambiguity and forbidden prefixes
    bases = list(T.ROWS) + list(T.ALIASES)
    namb = nforb = 0
    for p in list(T.PREFIXES) + list(T.PREFIX_WORDS):
        for b in bases:
            if b == "":
                continue
            s = p + b
            rs = R.readings(s)
            distinct = {(("u" if x[1] in MICRO else x[1]), x[2]) for x in rs}
            if len(distinct) > 1:
                namb += 1
                ctx.nt(("ambiguous", s))
                ctx.ev()
                try:
                    u = Unit(s)
                except UnitParseError as e:
                    ctx.violation(f"C14:ambiguous-unresolvable:{s}", {"name": s, "readings": rs})
                    continue
                kind, pp, base = rs[0]
                bs, bd, bo = lib_base(base)
                pv = float(T.PREFIXES[pp][0]) if pp else 1.0
                got = _unit_facts(u)
                if got[1] != bd or not _close(got[0], bs * pv, 1e-14):
                    ctx.violation(f"C14:ambiguous-wrong-reading:{s}", {"name": s, "readings": rs, "got": got})
                if namb % 7 == 0:
                    ctx.sample({"ambiguous": s, "readings": [list(map(str, r)) for r in rs], "resolved": str(u)})
            elif not rs:
                # no legitimate reading: must be rejected (non-prefixable base, or
                # prefix word on a symbol)
                canon = T.ALIASES.get(b, b)
                if canon in T.ROWS and not T.ROWS[canon]["prefixable"] and p in T.PREFIXES:
                    nforb += 1
                    ctx.ev()
                    ctx.nt(("forbidden", s))
                    try:
                        u = Unit(s)
                    except UnitParseError:
                        continue
                    ctx.violation(f"C14:prefix-accepted-on-nonprefixable:{canon}",
                                  {"name": s, "got": _unit_facts(u)})
    # (4) doubly prefixed strings, in the default and in a custom registry, after the inner name was resolved
    inner = [(p2, b) for b in T.ROWS if T.ROWS[b]["prefixable"] for p2 in T.PREFIXES]
    if ctx.quick:
        inner = inner[ctx.seed % 3::3]
    ctx.merge(core.pmap(MOD, "part_double_prefix", [{"inner": sh} for sh in core.shards(inner, 16)]))

    # (5) a namespace built from a registry whose symbols were modified must agree with that registry
    import unyt.dimensions as D

    reg2 = UnitRegistry()
    for sym, val in (("Msun", 2.0e30), ("pc", 3.0e16), ("m", 2.0), ("g", 0.002), ("s", 3.0), ("K", 1.5), ("rad", 0.5), ("Hz", 2.0), ("J", 3.0)):
        reg2.modify(sym, val)
    reg2.add("code_length", 7.0, D.length, prefixable=True)
    ns2 = {}
    add_symbols(ns2, reg2)
    nmod = 0
    for aname, obj in ns2.items():
        if not isinstance(obj, Unit):
            continue
        ctx.ev()
        try:
            ref = Unit(aname, registry=reg2)
        except UnitParseError:
            continue
        a, b = _unit_facts(obj), _unit_facts(ref)
        if a[1] != b[1] or not _close(a[0], b[0], 1e-14) or not _close(a[2], b[2], 1e-12):
            ctx.violation(f"C14:namespace-disagrees-with-modified-registry:{_rootkey(R.readings(aname)[0][2] if R.readings(aname) else aname)}",
                          {"name": aname, "namespace": a, "string": b})
        elif _close(a[0], _unit_facts(getattr(us, aname))[0] if hasattr(us, aname) else a[0], 1e-14) is False:
            nmod += 1
            ctx.nt((aname, "modified-registry-namespace"))
    # (6) history in a custom registry: every spelling resolved by string, then every canonical symbol re-scaled, then every
    #     spelling resolved again - each must still be its canonical symbol (in that registry) scaled by exactly the prefix
    reg3 = UnitRegistry()
    for name in names:
        try:
            Unit(name, registry=reg3)
        except UnitParseError:
            pass
    rescaled = 0
    for k_, sym in enumerate(T.ROWS):
        if sym in reg3.lut and float(reg3.lut[sym][0]) not in (0.0,) and sym not in ("", "dimensionless"):
            try:
                reg3.modify(sym, float(reg3.lut[sym][0]) * (2.0 + (k_ % 5)))
                rescaled += 1
            except Exception as e:
                ctx.count(f"modify refused ({type(e).__name__})")
    ctx.count("canonical symbols re-scaled in the history registry", rescaled)
    nstale = 0
    for name in names:
        rs = R.readings(name)
        if not rs or name == "":
            continue
        kind, p_, base = rs[0]
        ctx.ev()
        try:
            got = _unit_facts(Unit(name, registry=reg3))
            ref = _unit_facts(Unit(base, registry=reg3))
        except UnitParseError as e:
            if name not in unresolvable:  # those are reported once, in (1)
                ctx.violation(f"C14:after-rescaling:unresolvable:{_rootkey(name)}", {"name": name, "error": str(e)[:160]})
            continue
        pv = float(T.PREFIXES[p_][0]) if p_ else 1.0
        if got[1] != ref[1] or not _close(got[0], ref[0] * pv, 1e-14):
            nstale += 1
            ctx.violation(f"C14:after-rescaling:alias-differs-from-canonical:{'name=' + base}", {"name": name, "canonical": base, "prefix": p_, "got": got, "canonical_now": ref})
        elif name != base:
            ctx.nt((name, "after-rescaling"))
    # (7) user-defined prefixable symbols with spellings that the prefix splitter treats specially ("<unit>cm" comoving names as yt
    #     defines them, names that end in / begin with another symbol): their own prefixed forms are prefix x value, and using them
    #     changes nothing about what any documented name denotes in that registry (by string and through the registry's namespace)
    reg4 = UnitRegistry()
    before = {}
    for name in names:
        try:
            before[name] = _unit_facts(Unit(name, registry=UnitRegistry()))
        except UnitParseError:
            pass
    user = {}
    k_ = 0
    for b in T.ROWS:
        if not T.ROWS[b]["prefixable"] or b in ("", "dimensionless"):
            continue
        for suffix in ("cm", "cmh", "h", "_c"):
            nm_ = b + suffix
            if R.readings(nm_):
                continue
            try:
                Unit(nm_, registry=reg4)
                continue  # the library already reads this string as something
            except UnitParseError:
                pass
            except Exception:
                continue
            k_ += 1
            val = float(lib_base(b)[0]) / (1.0 + (k_ % 4))
            try:
                reg4.add(nm_, val, Unit(b).dimensions, tex_repr="\\rm{" + b + "}/(1+z)", prefixable=True)
            except Exception as e:
                ctx.count(f"user symbol refused ({type(e).__name__})")
                continue
            user[nm_] = (val, lib_base(b)[1])
    ctx.count("user-defined prefixable symbols with splitter-sensitive spellings", len(user))
    for nm_, (val, dim) in user.items():
        for p_ in T.PREFIXES:
            s = p_ + nm_
            if R.readings(s):
                continue  # the string is also a documented name: that reading wins, judged below
            ctx.ev()
            ctx.nt(("user-prefixed", s))
            try:
                got = _unit_facts(Unit(s, registry=reg4))
            except UnitParseError as e:
                ctx.violation("C14:user-symbol:prefixed-form-unresolvable", {"name": s, "error": str(e)[:120]})
                continue
            if got[1] != dim or not _close(got[0], val * float(T.PREFIXES[p_][0]), 1e-14):
                ctx.violation("C14:user-symbol:prefixed-form-wrong", {"name": s, "got": got, "want_scale": val * float(T.PREFIXES[p_][0])})
    ns4 = {}
    add_symbols(ns4, reg4)
    for name, want in before.items():
        ctx.ev()
        try:
            got = _unit_facts(Unit(name, registry=reg4))
        except UnitParseError as e:
            ctx.violation(f"C14:after-user-symbols:unresolvable:{_rootkey(name)}", {"name": name, "error": str(e)[:120]})
            continue
        if got[1] != want[1] or not _close(got[0], want[0], 1e-14) or not _close(got[2], want[2], 1e-12):
            ctx.violation(f"C14:after-user-symbols:documented-name-changed-meaning:{_rootkey(name)}", {"name": name, "got": got, "in_a_fresh_registry": want, "how": "string"})
        obj = ns4.get(name)
        if isinstance(obj, Unit):
            ctx.ev()
            g2 = _unit_facts(obj)
            if g2[1] != want[1] or not _close(g2[0], want[0], 1e-14) or not _close(g2[2], want[2], 1e-12):
                ctx.violation(f"C14:after-user-symbols:documented-name-changed-meaning:{_rootkey(name)}", {"name": name, "got": g2, "in_a_fresh_registry": want, "how": "registry namespace"})
    ctx.count("namespace entries affected by modified symbols", nmod)
    ctx.count("ambiguous strings", namb)
    ctx.count("forbidden prefix strings", nforb)
    ctx.count("documented names", len(names))
