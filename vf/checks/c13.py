"""C13 -- registries are isolated from each other and the default registry is read-only.

Generated interleavings of operations on up to four custom registries -- created by every
route (UnitRegistry(), lut= own dict, from_json, unpickling, deepcopy, Unit.copy(deep=True),
non-default unit system) -- and the default registry.  After *every* step an observable digest
of every registry is recomputed: resolution of a fixed probe set of unit strings, the explicit
table restricted to the import-time keys, results of arithmetic / conversion / base reduction
performed through that registry.  Oracle: the digest of every registry other than the one acted
on is unchanged; the default registry's digest, `default_unit_symbol_lut`, a panel of exported
units/constants and built-in conversions equal their import-time snapshot; modify/remove on
the default registry raise TypeError; mixed-registry operations use the left operand's registry
and write to neither.
"""

import copy
import itertools
import pickle

import numpy as np
from hypothesis import strategies as st

from vf import core
from vf.oracle import resolve as R

MOD = "vf.checks.c13"
PROBES = ["foo", "kfoo", "pc", "kpc", "Mpc", "m", "km", "Msun", "yr", "foo*pc/yr", "g", "K", "degC", "qux", "kqux", "code_length", "Mfoo", "J", "mJ", "foo**2"]
CREATE = ["plain", "plain_foo3", "plain_foo3", "lut_copy", "from_json", "unpickle", "deepcopy", "unit_copy_deep", "cgs", "no_defaults_json"]
OPS = ["add_foo", "add_foo_other", "add_qux_prefixable", "modify_foo", "modify_pc", "remove_pc", "remove_foo", "construct", "arith", "add_symbols", "add_constants",
       "unit_system", "pickle_roundtrip", "json_roundtrip", "mixed_mul", "mixed_add", "default_modify", "default_remove", "deepcopy_array", "convert_custom", "define_unit",
       "fork_deepcopy", "fork_pickle", "fork_array_deepcopy", "define_on_default_copy", "mixed_grid", "list_into_registry", "define_on_empty"]
_N = itertools.count(1)


def facts(u):
    return (round(float(u.base_value), 15) if abs(float(u.base_value)) < 1e-300 else float(u.base_value), R.dimvec_of(u.dimensions), float(u.base_offset))


def digest(reg, deep=True):
    from unyt import Unit, unyt_quantity

    d = {}
    for p in PROBES:
        try:
            d[p] = facts(Unit(p, registry=reg))
        except Exception as e:
            d[p] = ("unknown", type(e).__name__)
    if deep and d["foo"][0] != "unknown":
        try:
            q = unyt_quantity(6.0, "foo", registry=reg)
            si = "m" if d["foo"][1][1] == 1 else "s" if d["foo"][1][2] == 1 else None
            if si:
                r = q * unyt_quantity(1.0, "s", registry=reg) / unyt_quantity(1.0, si, registry=reg)
                d["arith:q*s/SI"] = (float(r.v) * float(r.units.base_value), float(Unit(str(r.units), registry=reg).base_value) / float(r.units.base_value))
                d["arith:to"] = float(q.to(si).v)
                d["arith:in_base"] = float(q.in_base().v)
                d["arith:registry"] = (q * q).units.registry is reg or getattr((q * q).units.registry, "lut", None) is reg.lut
        except Exception as e:
            d["arith"] = ("raises", type(e).__name__)
    own = []
    for p in ("km", "pc", "g", "kpc", "J", "foo"):
        try:
            u_ = Unit(p, registry=reg)
        except Exception:
            continue
        own.append(u_.registry is reg or getattr(u_.registry, "lut", None) is reg.lut)
    d["units-looked-up-here-belong-here"] = all(own)
    try:
        d["pc->m"] = float(unyt_quantity(1.0, "pc", registry=reg).to("m").v)
    except Exception as e:
        d["pc->m"] = ("raises", type(e).__name__)
    return d


def default_snapshot():
    import unyt
    from unyt._unit_lookup_table import default_unit_symbol_lut as L
    from unyt.unit_registry import default_unit_registry as DR

    # dimension objects are compared by identity (cheap, and stricter than equality)
    snap = {"lut": {k: (float(v[0]), id(v[1]), float(v[2]), bool(v[4])) for k, v in L.items()}}
    snap["registry-values-on-import-keys"] = {k: (float(DR.lut[k][0]), id(DR.lut[k][1]), float(DR.lut[k][2])) if k in DR.lut else None for k in L}
    snap["foreign"] = sorted(k for k in DR.lut if k in ("foo", "qux", "kfoo", "kqux", "code_length", "baz") or k.startswith("vf"))
    snap["exports"] = {n: facts(getattr(unyt, n).units if hasattr(getattr(unyt, n), "units") and not isinstance(getattr(unyt, n), unyt.Unit) else getattr(unyt, n))
                       for n in ("pc", "m", "km", "Msun", "g", "yr", "kpc", "J", "K", "degC", "c", "G", "kboltz", "me", "Mpc")}
    snap["constants"] = {n: float(getattr(unyt.physical_constants, n).in_mks().v) for n in ("G", "c", "kboltz", "me", "mp", "h_mks" if hasattr(unyt.physical_constants, "h_mks") else "h")}
    q = unyt.unyt_quantity
    snap["conversions"] = (float(q(1.0, "kpc").to("m").v), float(q(1.0, "Msun").to("g").v), float(q(1.0, "mile").to("km").v), float(q(1.0, "yr").to("s").v),
                           float(q(300.0, "K").to("degC").v), float((q(2.0, "pc") * q(3.0, "Msun") / q(1.0, "yr")).in_mks().v), float(q(1.0, "J").in_cgs().v))
    exported = [n for n in ("km", "pc", "kpc", "Msun", "yr", "g", "K", "J", "percent", "degC", "s", "m") if isinstance(getattr(unyt, n, None), unyt.Unit)]
    snap["exported-units-owned-by-default-registry"] = {n: (getattr(unyt, n).registry is DR, unyt.Unit(n).registry is DR, getattr(unyt.unit_symbols, n).registry is DR) for n in exported}
    snap["conversions-through-exports"] = (float((1.0 * unyt.km).to("pc").v), float((2.0 * unyt.pc).to("m").v), float((1.0 * unyt.Msun).to("g").v), float((3.0 * unyt.kpc).in_mks().v))
    snap["namespace-size"] = tuple(len([n for n, v in vars(mod).items() if not n.startswith("_") and isinstance(v, (unyt.Unit, unyt.unyt_quantity))]) for mod in (unyt, unyt.unit_symbols))
    snap["digest"] = digest(DR, deep=False)
    return snap


def create(route, regs):
    import unyt.dimensions as D
    from unyt import Unit, unyt_array
    from unyt._unit_lookup_table import default_unit_symbol_lut as L
    from unyt.unit_registry import UnitRegistry

    src = regs[0] if regs else None
    if route == "plain":
        return UnitRegistry()
    if route == "plain_foo3":
        r = UnitRegistry()
        r.add("foo", 3.0, D.length, prefixable=True)  # several registries with *identical* contents
        return r
    if route == "lut_copy":
        return UnitRegistry(lut=dict(L), add_default_symbols=False)
    if route == "cgs":
        return UnitRegistry(unit_system="cgs")
    if route == "from_json":
        return UnitRegistry.from_json((src or UnitRegistry()).to_json())
    if route == "no_defaults_json":
        r = UnitRegistry.from_json((src or UnitRegistry()).to_json())
        return r
    if route == "unpickle":
        a = unyt_array([1.0, 2.0], "pc", registry=src or UnitRegistry())
        return pickle.loads(pickle.dumps(a)).units.registry
    if route == "deepcopy":
        return copy.deepcopy(src or UnitRegistry())
    if route == "unit_copy_deep":
        return Unit("pc", registry=src or UnitRegistry()).copy(deep=True).registry
    raise ValueError(route)


def apply(op, i, j, regs, x):
    """perform op through registry i (j = a second registry for mixed ops); returns (acted_on, error-or-None)"""
    import unyt
    import unyt.dimensions as D
    from unyt import Unit, UnitSystem, unyt_array, unyt_quantity
    from unyt.unit_registry import default_unit_registry as DR
    from unyt.unit_systems import add_constants, add_symbols

    r = regs[i]
    acted = {i}
    if op == "add_foo":
        r.add("foo", 2.0 + x, D.length, prefixable=True)
    elif op == "add_foo_other":
        r.add("foo", 5.0 + x, D.time, prefixable=True)
    elif op == "add_qux_prefixable":
        r.add("qux", 7.0 + x, D.mass, prefixable=True)
    elif op == "modify_foo":
        r.modify("foo", 11.0 + x)
    elif op == "modify_pc":
        r.modify("pc", 1.0 + x)
    elif op == "remove_pc":
        r.remove("pc")
    elif op == "remove_foo":
        r.remove("foo")
    elif op == "define_unit":
        unyt.define_unit(f"vfd{next(_N)}", unyt_quantity(2.0, "m"), registry=r)
    elif op in ("fork_deepcopy", "fork_pickle", "fork_array_deepcopy"):
        # registry j is replaced by a deep copy of registry i taken NOW (after whatever i has parsed and memoised so far);
        # from here on the two are separate registries
        if i == j:
            return set(), None
        if op == "fork_deepcopy":
            regs[j] = copy.deepcopy(r)
        elif op == "fork_pickle":
            regs[j] = pickle.loads(pickle.dumps(unyt_array([1.0, 2.0], "pc*Msun/yr", registry=r))).units.registry
        else:
            regs[j] = copy.deepcopy(unyt_array([1.0, 2.0], "kpc", registry=r)).units.registry
        if regs[j] is r or regs[j].lut is r.lut:
            return set(), ("fork-shares-table:" + op, "")
        d_src, d_new = digest(r), digest(regs[j])
        if op == "fork_pickle":
            # pickling does not carry the registry's default unit system (C11's recorded finding): base-reduction entries are not compared
            d_src = {k_: v_ for k_, v_ in d_src.items() if "in_base" not in k_}
            d_new = {k_: v_ for k_, v_ in d_new.items() if "in_base" not in k_}
        if d_src != d_new:
            diff = sorted(p for p in set(d_src) | set(d_new) if d_src.get(p) != d_new.get(p))
            return set(), ("fork-differs-from-its-source:" + op, repr({p: (d_src.get(p), d_new.get(p)) for p in diff[:3]})[:300])
        acted = {j}
    elif op == "define_on_default_copy":
        # private copies of the *default* registry are private: defining a unit there changes neither the unyt namespace nor the default registry
        priv = [copy.deepcopy(DR), pickle.loads(pickle.dumps(unyt.kpc)).registry, (unyt.pc * unyt.g).units.copy(deep=True).registry if hasattr(unyt.pc * unyt.g, "units") else (unyt.pc * unyt.g).copy(deep=True).registry][x % 3]
        name = f"vfpriv{next(_N)}"
        unyt.define_unit(name, unyt_quantity(2.0, "m"), registry=priv)
        if hasattr(unyt, name):
            return set(), ("define_unit-on-private-copy-exported-into-unyt-namespace", name)
        try:
            Unit(name)
            return set(), ("define_unit-on-private-copy-reached-default-registry", name)
        except Exception:
            pass
        acted = set()
    elif op == "define_on_empty":
        # a registry created without the default symbols (still empty, or holding one symbol) is a registry like any other:
        # define_unit / add into it land there and nowhere else
        from unyt.unit_registry import UnitRegistry as _UR

        empty = _UR(add_default_symbols=False)
        if x % 2:
            empty.add("vfseed", 1.0, unyt.dimensions.length)
        name = f"vfempty{next(_N)}"
        refused = False
        try:
            unyt.define_unit(name, unyt_quantity(2.0, "m") if x % 3 else (2.0, "m"), registry=empty)
        except Exception:
            refused = True  # (2.0, "m") names a symbol the empty registry does not have
        if hasattr(unyt, name):
            delattr(unyt, name)
            return set(), ("define_unit-on-empty-registry-exported-into-unyt-namespace", name)
        if name in DR.lut:
            return set(), ("define_unit-on-empty-registry-reached-default-registry", name)
        try:
            Unit(name)
            return set(), ("define_unit-on-empty-registry-reached-default-registry", name)
        except Exception:
            pass
        if name not in empty.lut and not refused:
            return set(), ("define_unit-on-empty-registry-did-not-land-there", name)
        made = unyt_array([1.0, 2.0], "m", registry=empty) if "m" in empty.lut else None
        if made is not None and made.units.registry is not empty:
            return set(), ("constructor-ignores-empty-registry", name)
        acted = set()
    elif op == "construct":
        for s in ("kfoo", "Mfoo", "kpc", "Mpc", "foo*pc/yr", "mJ", "kqux", "foo**2", "km"):
            try:
                Unit(s, registry=r)
            except Exception:
                pass
        acted = set()  # constructing units is a pure observation: nothing at all may change, not even in r
    elif op == "arith":
        try:
            q = unyt_quantity(6.0, "foo", registry=r)
            (q * unyt_quantity(1.0, "s", registry=r) / unyt_quantity(1.0, "m", registry=r))
            (q * q).in_base()
            np.sqrt(q * q)
            q.to("m")
        except Exception:
            pass
        acted = set()
    elif op == "add_symbols":
        ns = {}
        add_symbols(ns, r)
        acted = set()
    elif op == "add_constants":
        ns = {}
        add_constants(ns, r)
        acted = set()
    elif op == "unit_system":
        try:
            UnitSystem(f"vfsys{next(_N)}", "foo" if "foo" in r.lut and r.lut["foo"][1] is D.length else "pc", "Msun", "yr", registry=r)
        except Exception:
            pass
        acted = set()
    elif op == "pickle_roundtrip":
        a = unyt_array([1.0, 2.0], "pc", registry=r)
        b = pickle.loads(pickle.dumps(a))
        b.units.registry.add("vfpk", 9.0, D.length)  # editing the restored registry must not reach r
        acted = set()
    elif op == "json_roundtrip":
        r2 = type(r).from_json(r.to_json()) if hasattr(type(r), "from_json") else None
        if r2 is not None:
            try:
                r2.modify("pc", 123.0)
            except TypeError:
                pass
            r2.add("vfjs", 9.0, D.length)
        acted = set()
    elif op == "deepcopy_array":
        a = unyt_array([1.0, 2.0], "pc", registry=r)
        b = copy.deepcopy(a)
        try:
            b.units.registry.modify("pc", 77.0)
        except TypeError:
            pass
        acted = set()
    elif op == "convert_custom":
        try:
            unyt_quantity(2.0, "kfoo", registry=r).to("foo")
            unyt_quantity(2.0, "pc", registry=r).in_base("galactic")
        except Exception:
            pass
        acted = set()
    elif op in ("mixed_mul", "mixed_add"):
        a = unyt_quantity(2.0, "pc", registry=r)
        b = unyt_quantity(3.0, "pc" if op == "mixed_add" else "yr", registry=regs[j])
        try:
            res = a * b if op == "mixed_mul" else a + b
        except Exception:
            return set(), None
        if not (res.units.registry is r or getattr(res.units.registry, "lut", None) is r.lut):
            return set(), ("mixed-result-not-in-left-registry", repr(res)[:80])
        acted = set()
    elif op == "mixed_grid":
        # left operand kinds x operations: the result lives in the LEFT operand's registry whenever the left operand names a
        # symbol (a bare unit-less left factor is the documented exception: it names nothing)
        other = regs[j]
        if other is r or other.lut is r.lut:
            return set(), None
        lefts = ["pc", "percent", "km/m", "1/yr", "rad", "ppm" if "ppm" in r.lut else "percent"]
        for lu in lefts:
            for ru, forms in (("yr", ("*", "/", "np.multiply", "np.divide", "unit*", "unit/")), (lu, ("+", "-", "np.maximum", "np.add"))):
                for form in forms:
                    try:
                        a = unyt_array([2.0, 4.0], lu, registry=r)
                        b = unyt_array([3.0, 5.0], ru, registry=other)
                        res = {"*": lambda: a * b, "/": lambda: a / b, "np.multiply": lambda: np.multiply(a, b), "np.divide": lambda: np.divide(a, b),
                               "unit*": lambda: a.units * b.units, "unit/": lambda: a.units / b.units, "+": lambda: a + b, "-": lambda: a - b,
                               "np.maximum": lambda: np.maximum(a, b), "np.add": lambda: np.add(a, b)}[form]()
                    except Exception:
                        continue
                    ru_ = res.registry if isinstance(res, Unit) else res.units.registry
                    if not (ru_ is r or getattr(ru_, "lut", None) is r.lut):
                        return set(), (f"mixed-result-not-in-left-registry:{form}", f"left={lu} right={ru} result={res!r}"[:120])
        acted = set()
    elif op == "list_into_registry":
        # constructors given quantities that live elsewhere plus an explicit registry=: the sources (and the module-level
        # Unit objects they share) stay what and where they were
        other = regs[j]
        srcs = [[1.0 * unyt.km, 2.0 * unyt.km], (3.0 * unyt.pc, 4.0 * unyt.pc), [unyt_quantity(1.0, "pc", registry=other), unyt_quantity(2.0, "kpc", registry=other)],
                [unyt.unyt_quantity(5.0, "Msun"), unyt.unyt_quantity(6.0, "g")]]
        owners = [[q_.units.registry for q_ in l_] for l_ in srcs]
        unit_ids = [[id(q_.units) for q_ in l_] for l_ in srcs]
        for l_ in srcs:
            for ctor in (lambda z: unyt_array(z, registry=r), lambda z: unyt_array(list(z)[0], registry=r), lambda z: unyt_quantity(list(z)[0], registry=r),
                         lambda z: unyt_array(unyt_array(z), registry=r)):
                try:
                    ctor(l_)
                except Exception:
                    pass
        for l_, ow, ids in zip(srcs, owners, unit_ids):
            for q_, o_, id_ in zip(l_, ow, ids):
                if q_.units.registry is not o_:
                    return set(), ("constructor-with-registry-rebinds-its-source", f"{q_!r}"[:80])
        # Unit objects (exported ones, units of another registry) passed as units= together with registry=, with and without
        # bypass_validation: the Unit object handed in belongs to its owner afterwards
        uobjs = [("unyt.m", unyt.m), ("unyt.km", unyt.km), ("unit_symbols.g", unyt.unit_symbols.g), ("unyt.pc*unyt.yr", unyt.pc * unyt.yr), ("Unit('kpc', other)", Unit("kpc", registry=other)),
                 ("unyt.degC", unyt.degC)]
        for un_, uo in uobjs:
            owner, fct = uo.registry, facts(uo)
            for cn, ctor in (("unyt_array(ndarray, unit, registry=)", lambda: unyt_array(np.arange(3.0), uo, registry=r)),
                             ("unyt_array(ndarray, unit, registry=, bypass_validation=True)", lambda: unyt_array(np.arange(3.0), uo, registry=r, bypass_validation=True)),
                             ("unyt_quantity(number, unit, registry=, bypass_validation=True)", lambda: unyt_quantity(np.float64(2.0), uo, registry=r, bypass_validation=True)),
                             ("unyt_array(list, unit, registry=)", lambda: unyt_array([1.0, 2.0], uo, registry=r)), ("unyt_quantity(number, unit, registry=)", lambda: unyt_quantity(2.0, uo, registry=r))):
                try:
                    made = ctor()
                except Exception:
                    made = None
                if uo.registry is not owner or facts(uo) != fct:
                    uo.registry = owner  # put it back so that the run can go on; the violation is reported
                    return set(), (f"constructor-with-registry-rebinds-the-unit-object-it-was-given:{cn}", f"{un_}")
                if made is not None and made.units.registry is not r and getattr(made.units.registry, "lut", None) is not r.lut:
                    return set(), (f"constructor-with-registry-ignores-it:{cn}", f"{un_}")
        acted = set()
    elif op == "default_modify":
        try:
            DR.modify("pc", 2.0)
            return set(), ("default-registry-modify-accepted", "")
        except TypeError:
            pass
        try:
            Unit("pc").registry.modify("m", 2.0)
            return set(), ("default-registry-modify-accepted-via-unit", "")
        except TypeError:
            pass
        # every handle on the default table must refuse: shallow copies of default-registry units (fresh compound each time, so
        # the copy is not served from a cache) and shallow copies of the registry object itself
        k_ = next(_N) % 7 + 2
        for nm, handle in (("unit-copy", lambda: (unyt.pc * unyt.g**k_ / unyt.yr**3).units.copy().registry if hasattr((unyt.pc * unyt.g**k_ / unyt.yr**3), "units") else (unyt.pc * unyt.g**k_ / unyt.yr**3).copy().registry),
                           ("Unit.copy", lambda: (Unit("pc") * Unit("g") ** k_ / Unit("yr") ** (k_ + 1)).copy().registry), ("copy.copy(registry)", lambda: copy.copy(DR))):
            try:
                handle().modify("m", 2.0)
                return set(), (f"default-table-modify-accepted-via:{nm}", "")
            except TypeError:
                pass
        acted = set()
    elif op == "default_remove":
        try:
            DR.remove("pc")
            return set(), ("default-registry-remove-accepted", "")
        except TypeError:
            pass
        try:
            unyt.unyt_quantity(1.0, "pc").units.registry.remove("pc")
            return set(), ("default-registry-remove-accepted-via-quantity", "")
        except TypeError:
            pass
        k_ = next(_N) % 7 + 2
        for nm, handle in (("Unit.copy", lambda: (Unit("pc") * Unit("g") ** k_ / Unit("yr") ** (k_ + 2)).copy().registry), ("copy.copy(registry)", lambda: copy.copy(DR))):
            try:
                handle().remove("furlong")
                return set(), (f"default-table-remove-accepted-via:{nm}", "")
            except TypeError:
                pass
        acted = set()
    return acted, None


@st.composite
def case(draw):
    n = draw(st.integers(2, 4))
    routes = [draw(st.sampled_from(["plain", "plain_foo3", "lut_copy", "cgs"]))] + [draw(st.sampled_from(CREATE)) for _ in range(n - 1)]
    steps = [(draw(st.sampled_from(OPS)), draw(st.integers(0, n - 1)), draw(st.integers(0, n - 1)), draw(st.integers(0, 3))) for _ in range(draw(st.integers(4, 25)))]
    return {"routes": routes, "steps": steps}


_IMPORT_SNAP = None


def judge(c, part):
    global _IMPORT_SNAP
    from unyt.exceptions import SymbolNotFoundError, UnitParseError

    out = []
    if _IMPORT_SNAP is None:
        _IMPORT_SNAP = default_snapshot()
    regs = []
    for route in c["routes"]:
        try:
            regs.append(create(route, regs))
        except Exception as e:
            out.append((f"C13:creation-raises:{route}:{type(e).__name__}", {"routes": c["routes"], "error": str(e)[:160]}))
            return out
    for a, b in itertools.combinations(range(len(regs)), 2):
        if regs[a] is regs[b] or regs[a].lut is regs[b].lut:
            out.append((f"C13:creation-shares-table:{c['routes'][b]}", {"routes": c["routes"]}))
            return out
    digs = [digest(r) for r in regs]
    mutated = False
    for k, (op, i, j, x) in enumerate(c["steps"]):
        part.ev()
        try:
            acted, err = apply(op, i, j, regs, x)
        except (SymbolNotFoundError, UnitParseError):
            # the symbol this step wanted to use does not exist in that registry (removed earlier): the step is a no-op
            acted, err = {i}, None
        except Exception as e:
            esc = core.escaped_from_library(e)
            if esc is None:
                raise
            out.append((f"C13:operation-raises:{op}:{type(e).__name__}", {"routes": c["routes"], "steps": c["steps"][: k + 1], "error": str(e)[:160]}))
            return out
        if err:
            out.append((f"C13:{err[0]}", {"routes": c["routes"], "steps": c["steps"][: k + 1], "detail": err[1]}))
            return out
        new = [digest(r) for r in regs]
        for m in range(len(regs)):
            if m in acted:
                continue
            if new[m] != digs[m]:
                diff = {p: (digs[m].get(p), new[m].get(p)) for p in set(digs[m]) | set(new[m]) if digs[m].get(p) != new[m].get(p)}
                kind = "same-registry-pure-observation" if m == i else "other-registry"
                sample = sorted(diff)[0]
                out.append((f"C13:{kind}-changed-by:{op}:{'arith' if sample.startswith('arith') else 'resolution'}",
                            {"routes": c["routes"], "steps": c["steps"][: k + 1], "registry": m, "acted_through": i, "diff": {s: repr(v)[:160] for s, v in list(diff.items())[:3]}}))
                return out
        if acted:
            mutated = True
        digs = new
        snap = default_snapshot()
        if snap != _IMPORT_SNAP:
            keys = [s for s in snap if snap[s] != _IMPORT_SNAP[s]]
            out.append((f"C13:default-registry-changed-by:{op}:{keys[0]}", {"routes": c["routes"], "steps": c["steps"][: k + 1], "changed": keys}))
            return out
    if len(regs) >= 2 and mutated:
        part.nt((tuple(c["routes"]), tuple(s[0] for s in c["steps"])))
    for r_ in c["routes"]:
        part.count(f"route {r_}")
    if len(part.samples) < 1:
        part.sample({"routes": c["routes"], "steps": c["steps"][:8]})
    return out


def part_random(payload):
    known = core.Known("C13")
    part = core.Part()
    core.hyp_explore(part, known, case(), judge, payload["n"], payload["seed"], label="C13:interleavings")
    return part



# ------------------------------------------------------------------ code unit systems of registries with identical contents
def part_code_systems(payload):
    """yt-style code unit systems: UnitSystem(reg.unit_system_id, ..., registry=reg) and in_base("code").  The id is a hash of the
    registry's *contents*, so a registry and its fork (deepcopy / pickle / JSON / lut copy) share one key in the global unit-system
    table and the system registered last is the one both find.  Whatever that table holds, a conversion asked for through
    registry A is answered with A's own definitions and stays in A; edits through B never change it."""
    import json

    import unyt.dimensions as D
    from unyt import Unit, UnitSystem, unyt_array, unyt_quantity
    from unyt.unit_registry import UnitRegistry

    known = core.Known("C13")
    part = core.Part()

    def fork(reg, how):
        if how == "deepcopy":
            return copy.deepcopy(reg)
        if how == "pickle":
            return pickle.loads(pickle.dumps(unyt_array([1.0], "code_length*code_mass/code_time", registry=reg))).units.registry
        if how == "json":
            return UnitRegistry.from_json(reg.to_json())
        if how == "lut":
            return UnitRegistry(lut=dict(reg.lut), add_default_symbols=False)
        if how == "rebuilt":
            r = UnitRegistry()
            for k_ in ("code_length", "code_mass", "code_time"):
                r.add(k_, float(reg.lut[k_][0]), reg.lut[k_][1])
            return r
        raise ValueError(how)

    def observe(reg, usys_obj):
        out = {}
        q = unyt_quantity(6.0, "m", registry=reg)
        a = unyt_array([2.0, 4.0], "kg*m/s", registry=reg)
        u = Unit("m/s", registry=reg)
        for nm, f in (("q.in_base(code)", lambda: q.in_base("code")), ("a.in_base(code)", lambda: a.in_base("code")), ("u.get_base_equivalent(code)", lambda: u.get_base_equivalent("code")),
                      ("q.in_base(system object)", lambda: q.in_base(usys_obj)), ("convert_to_base(code)", lambda: (lambda z: (z.convert_to_base("code"), z)[1])(a.copy())),
                      ("u.get_base_equivalent(system object)", lambda: u.get_base_equivalent(usys_obj))):
            try:
                r = f()
            except Exception as e:
                out[nm] = ("raises", type(e).__name__)
                continue
            un = r if isinstance(r, Unit) else r.units
            home = un.registry is reg or getattr(un.registry, "lut", None) is reg.lut
            vals = None if isinstance(r, Unit) else [float(v) for v in np.atleast_1d(np.asarray(r))]
            out[nm] = (vals, str(un), float(un.base_value), R.dimvec_of(un.dimensions), "in own registry" if home else "IN ANOTHER REGISTRY")
        return out

    nscen = 0
    for how in ("deepcopy", "pickle", "json", "lut", "rebuilt"):
        for order in ("source-first", "fork-first"):
            for edit in ("modify", "remove+add", "add-unrelated", "modify-mass"):
                for through in ("fork", "source"):
                    nscen += 1
                    reg1 = UnitRegistry()
                    reg1.add("code_length", 2.0, D.length)
                    reg1.add("code_mass", 3.0, D.mass)
                    reg1.add("code_time", 4.0, D.time)
                    try:
                        reg2 = fork(reg1, how)
                    except Exception as e:
                        part.count(f"fork route {how} unavailable ({type(e).__name__})")
                        continue
                    same_id = reg1.unit_system_id == reg2.unit_system_id
                    part.count("forks sharing the source's unit_system_id" if same_id else "forks with an id of their own")
                    pair = [(reg1, "source"), (reg2, "fork")]
                    if order == "fork-first":
                        pair.reverse()
                    systems = {}
                    for r_, tag in pair:
                        systems[tag] = UnitSystem(r_.unit_system_id, "code_length", "code_mass", "code_time", registry=r_)
                    watched, edited = (reg1, reg2) if through == "fork" else (reg2, reg1)
                    wsys = systems["source" if through == "fork" else "fork"]
                    before = observe(watched, wsys)
                    det = {"fork": how, "systems_created": order, "edit": edit, "edited_through": through, "same_unit_system_id": same_id}
                    for nm, o in before.items():
                        part.ev()
                        if o[0] == "raises":
                            continue
                        if o[-1] != "in own registry":
                            core.classify(known, part, "C13:code-unit-system:result-bound-to-another-registry", dict(det, observation=nm, got=repr(o)[:200]))
                    want = {"q.in_base(code)": [3.0], "a.in_base(code)": [2.0 * 4.0 / (3.0 * 2.0), 4.0 * 4.0 / (3.0 * 2.0)]}
                    for nm, w in want.items():
                        o = before[nm]
                        if o[0] != "raises" and not all(abs(x - y) <= 1e-12 * abs(y) for x, y in zip(o[0], w)):
                            core.classify(known, part, "C13:code-unit-system:wrong-values", dict(det, observation=nm, got=o[0], want=w))
                    if edit == "modify":
                        edited.modify("code_length", 3.0)
                    elif edit == "remove+add":
                        edited.remove("code_length")
                        edited.add("code_length", 5.0, D.length)
                    elif edit == "add-unrelated":
                        edited.add("vfother", 9.0, D.length)
                    else:
                        edited.modify("code_mass", 7.0)
                    after = observe(watched, wsys)
                    part.nt(("code-systems", how, order, edit, through))
                    if after != before:
                        diff = {k_: (before[k_], after[k_]) for k_ in before if before[k_] != after[k_]}
                        core.classify(known, part, "C13:code-unit-system:other-registry-changed-by-edit", dict(det, diff=repr(diff)[:400]))
                    if len(part.samples) < 2:
                        part.sample(dict(det, before=repr(before["q.in_base(code)"]), after=repr(after["q.in_base(code)"])))
    part.count("code-unit-system scenarios", nscen)
    return part

def run(ctx):
    ctx.rule = (
        f"Hypothesis interleavings: 2-4 registries created by {len(set(CREATE))} routes (incl. several registries with identical contents) x 4-25 steps drawn "
        f"from {len(OPS)} operations (edits, unit construction, arithmetic, namespaces, unit systems, pickle/JSON/deepcopy round trips followed by edits of "
        "the restored registry, mixed-registry arithmetic, modify/remove attempts on the default registry); after every step a digest of every registry "
        f"({len(PROBES)} probe strings + arithmetic/conversion observations) and an import-time snapshot of the default registry, default table, exported "
        "units/constants and a conversion panel are compared. non-trivial = distinct (creation routes, operation sequence) with >= 2 registries and >= 1 mutation; plus a deterministic grid "
        "of code unit systems (UnitSystem(reg.unit_system_id, ..., registry=reg), in_base('code')) for a registry and its fork (5 fork routes x 2 creation orders x "
        "4 edits x 2 directions): answers through one registry use its own definitions, stay in it, and do not move when the other is edited"
    )
    ctx.assumptions = [
        "constructing units, arithmetic, namespaces, unit systems and round trips are pure observations: nothing observable may change, not even in the registry they go through",
        "the default registry may memoise derived prefixed keys of its own symbols (invisible to resolution); add/define_unit on the default registry are legitimate writers and are not exercised",
    ]
    n = ctx.pick(800, 32000)
    ctx.merge(core.pmap(MOD, "part_random", [{"n": n // 16, "seed": ctx.seed * 1000 + i} for i in range(16)]))
    ctx.merge(core.pmap(MOD, "part_code_systems", [{}]))


def replay(ctx, data):
    d = data["detail"]
    c = d["case"] if "case" in d else {"routes": d["routes"], "steps": [tuple(s) for s in d["steps"]]}
    c["steps"] = [tuple(s) for s in c["steps"]]
    for key, det in judge(c, ctx):
        ctx.violation(key, det)
