"""C12 -- registry edits take effect everywhere, immediately, regardless of history.

Histories over a custom registry with a small symbol alphabet (foo prefixable, qux, an explicit
kfoo that collides with a derived spelling, the default symbol pc, define_unit baz) are
enumerated exhaustively (BFS up to a bounded length) and generated beyond that.  After *every*
step a probe sweep observes the registry through unit construction from atomic / prefixed /
compound strings and through arithmetic, conversion and base-unit reduction (which also
populate every cache before the next edit).  Oracle: a plain-dict model of the registry's
explicit contents with its own prefix resolver -- i.e. what a fresh registry with those contents
would answer -- computed without touching the library, so shared caches cannot contaminate it.
Units captured before an edit must keep the value they had.
"""

import itertools

import numpy as np
from hypothesis import strategies as st

from vf import core
from vf.oracle import resolve as R
from vf.oracle import table as T

MOD = "vf.checks.c12"
_MARK = itertools.count(1)
PFX = {"k": 1e3, "m": 1e-3, "M": 1e6, "µ": 1e-6, "u": 1e-6, "da": 1e1, "c": 1e-2}
OPS = ["add_foo_len", "add_foo_time", "add_qux", "add_kfoo", "mod_foo", "mod_foo_q", "mod_pc", "mod_qux", "rm_foo", "rm_qux", "rm_kfoo", "rm_pc", "def_baz",
       "mod_kfoo", "add_foo_np", "mod_foo_swapdim", "mod_foo_q_km"]
PROBES = ["foo", "kfoo", "mfoo", "Mfoo", "µfoo", "dafoo", "qux", "kqux", "baz", "pc", "kpc", "Mpc", "foo**2/s", "kfoo*qux", "foo*kfoo", "pc/yr", "sqrt(foo)",
          "m", "kfoo**2", "qux/kfoo", "1/foo", "mpc", "parsec", "Kiloparsec", "megaparsec/year", "foo*parsec"]
# written-out names the parser rewrites to symbols (the library's alias table, read as data)
ALIASES = {"parsec": "pc", "Kiloparsec": "kpc", "megaparsec": "Mpc", "year": "yr"}


def default_entry(sym):
    """(scale, dimvec, offset, prefixable) of a default symbol, read from the library's table as data"""
    from unyt._unit_lookup_table import default_unit_symbol_lut as L

    v = L[sym]
    return (float(v[0]), R.dimvec_of(v[1]), float(v[2]), bool(v[4]))


class Model:
    def __init__(self):
        self.explicit = {}  # symbols edited/added/removed relative to the defaults: sym -> entry or None (removed)

    def entry(self, sym):
        if sym in self.explicit:
            return self.explicit[sym]
        from unyt._unit_lookup_table import default_unit_symbol_lut as L

        if sym in L:
            return default_entry(sym)
        return None

    def resolve(self, name):
        e = self.entry(name)
        if e is not None:
            return e[0], e[1], e[2]
        cands = ["da"] if name.startswith("da") else []
        cands.append(name[:1])
        p = "da" if name.startswith("da") else name[:1]
        # the library tries 'da' first only when the string starts with it, else the first character
        rest = name[len(p):]
        if p in PFX or p in T.PREFIXES:
            e = self.entry(rest)
            if e is not None and e[3] and rest:
                val = PFX.get(p, float(T.PREFIXES[p][0]) if p in T.PREFIXES else None)
                return e[0] * val, e[1], e[2]
        return None

    def apply(self, op):
        """returns 'ok' or the name of the exception class the registry is expected to raise"""
        X = self.explicit
        if op == "add_foo_len":
            X["foo"] = (2.0, T.LENGTH, 0.0, True)
        elif op == "add_foo_np":
            X["foo"] = (3.0, T.LENGTH, 0.0, False)
        elif op == "add_foo_time":
            X["foo"] = (5.0, T.TIME, 0.0, True)
        elif op == "add_qux":
            X["qux"] = (3.0, T.MASS, 0.0, False)
        elif op == "add_kfoo":
            X["kfoo"] = (7.0, T.LENGTH, 0.0, False)
        elif op in ("mod_foo", "mod_foo_q", "mod_pc", "mod_qux", "mod_kfoo", "mod_foo_q_km"):
            sym = {"mod_foo": "foo", "mod_foo_q": "foo", "mod_pc": "pc", "mod_qux": "qux", "mod_kfoo": "kfoo", "mod_foo_q_km": "foo"}[op]
            e = self.entry(sym)
            if e is None:
                return "SymbolNotFoundError"
            if op == "mod_foo_q":
                X[sym] = (4.0, T.TIME, e[2], e[3])
            elif op == "mod_foo_q_km":
                X[sym] = (2000.0, T.LENGTH, e[2], e[3])
            else:
                X[sym] = ({"mod_foo": 11.0, "mod_pc": 1.0, "mod_qux": 0.5, "mod_kfoo": 13.0}[op], e[1], e[2], e[3])
        elif op == "mod_foo_swapdim":
            e = self.entry("foo")
            if e is None:
                return "SymbolNotFoundError"
            X["foo"] = (e[0], T.TIME if e[1] == T.LENGTH else T.LENGTH, e[2], e[3])  # same scale, other dimension
        elif op in ("rm_foo", "rm_qux", "rm_kfoo", "rm_pc"):
            sym = op[3:]
            if self.entry(sym) is None:
                return "SymbolNotFoundError"
            X[sym] = None
        elif op == "def_baz":
            if self.resolve("baz") is not None:
                return "RuntimeError"
            X["baz"] = (3.0, T.LENGTH, 0.0, False)
        return "ok"


def lib_apply(reg, op):
    import unyt.dimensions as D
    from unyt import define_unit, unyt_quantity

    if op == "add_foo_len":
        reg.add("foo", 2.0, D.length, prefixable=True)
    elif op == "add_foo_np":
        reg.add("foo", 3.0, D.length)
    elif op == "add_foo_time":
        reg.add("foo", 5.0, D.time, prefixable=True)
    elif op == "add_qux":
        reg.add("qux", 3.0, D.mass)
    elif op == "add_kfoo":
        reg.add("kfoo", 7.0, D.length)
    elif op == "mod_foo":
        reg.modify("foo", 11.0)
    elif op == "mod_foo_q":
        reg.modify("foo", unyt_quantity(4.0, "s", registry=reg))
    elif op == "mod_foo_q_km":
        reg.modify("foo", unyt_quantity(2.0, "km", registry=reg))  # a quantity that lives in this registry (whatever its unit system)
    elif op == "mod_foo_swapdim":
        if "foo" not in reg.lut:
            reg.modify("foo", 1.0)  # raises SymbolNotFoundError
        cur = reg.lut["foo"]
        reg.modify("foo", unyt_quantity(cur[0], "s" if cur[1] == D.length else "m", registry=reg))
    elif op == "mod_pc":
        reg.modify("pc", 1.0)
    elif op == "mod_qux":
        reg.modify("qux", 0.5)
    elif op == "mod_kfoo":
        reg.modify("kfoo", 13.0)
    elif op.startswith("rm_"):
        reg.remove(op[3:])
    elif op == "def_baz":
        define_unit("baz", unyt_quantity(3.0, "m", registry=reg), registry=reg)


def _eval_probe(model, probe):
    """expected (scale, dimvec) of a probe string from the model, or None if some atom is unknown"""
    import re

    def atom(n):
        r = model.resolve(ALIASES.get(n, n))
        if r is None:
            raise KeyError(n)
        return T.mpf(r[0]), r[1], r[2]

    toks = re.findall(r"[A-Za-zµ_]+|\*\*|[*/()]|\d+", probe)
    # the probe grammar is tiny: name[**int] (*|/) name[**int], 1/name, sqrt(name)
    try:
        if probe.startswith("sqrt("):
            s, d, _ = atom(probe[5:-1])
            return float(T.mp.sqrt(s)), T.dpow(d, T.Fr(1, 2))
        scale, dim = T.mpf(1), T.ZERO
        sign = 1
        i = 0
        while i < len(toks):
            t = toks[i]
            if t == "*":
                sign = 1
            elif t == "/":
                sign = -1
            elif t == "1":
                pass
            else:
                s, d, _ = atom(t)
                e = 1
                if i + 2 < len(toks) + 0 and i + 1 < len(toks) and toks[i + 1] == "**":
                    e = int(toks[i + 2])
                    i += 2
                scale *= s ** (sign * e)
                dim = T.dmul(dim, T.dpow(d, sign * e))
                sign = 1
            i += 1
        return float(scale), dim
    except KeyError:
        return None


def observe(reg, probe):
    from unyt import Unit

    try:
        u = Unit(probe, registry=reg)
    except Exception as e:
        return ("unknown", type(e).__name__)
    return ("unit", float(u.base_value), R.dimvec_of(u.dimensions), float(u.base_offset))


def judge_history(hist, part, deep=True):
    from unyt import Unit, unyt_array, unyt_quantity
    from unyt.unit_registry import UnitRegistry

    out = []
    # the registry's default unit system does not enter what a symbol means (the table is in SI): half of the histories run under cgs / galactic
    reg = UnitRegistry(unit_system=("mks", "cgs", "mks", "galactic")[(len(hist) + len(hist[0])) % 4])
    # unyt memoises unit rules process-wide under a hash of the registry *contents*; two registry objects that ever had the
    # same contents therefore share cached results (that cross-registry effect is C13's subject).  A unique marker symbol gives
    # every history its own content hash, so that what is observed here depends on this registry's own history only.
    import unyt.dimensions as D_

    reg.add(f"vfmarker{next(_MARK)}", 1.0 + next(_MARK), D_.length)
    model = Model()
    # shallow copies of a registry (copy.copy, and the ones Unit.copy() makes) are other handles on the SAME table: an edit through
    # one handle is an edit of that table, so every handle must answer with the current contents
    import copy as _copy

    twin = _copy.copy(reg)
    handles = [reg, twin]
    captured = []  # (probe, step, Unit object, facts at capture)
    fork = None
    held = []  # (spelling, step, quantity 6.0 <spelling> created then, facts then)
    kinds = []
    for step, op in enumerate(hist):
        part.ev()
        want = model.apply(op)
        try:
            lib_apply(handles[(step + len(hist)) % 2] if op != "def_baz" else reg, op)
            got = "ok"
        except Exception as e:
            got = type(e).__name__
        if got != want:
            out.append((f"C12:edit-outcome:{op}", {"history": hist[: step + 1], "got": got, "want": want}))
            return out
        edit_kind = op.split("_")[0]
        # units captured earlier keep their value
        for probe, st0, uobj, facts in captured[-12:]:
            now = (float(uobj.base_value), R.dimvec_of(uobj.dimensions), float(uobj.base_offset))
            if now == facts:
                try:
                    for how, qq in (("unyt_array(data, unit, registry=its own)", unyt_array([6.0], uobj, registry=reg)), ("unyt_quantity(data, unit, registry=its own)", unyt_quantity(6.0, uobj, registry=reg)),
                                    ("data*unit", np.array([6.0]) * uobj)):
                        got_ = (float(qq.units.base_value), R.dimvec_of(qq.units.dimensions), float(qq.units.base_offset))
                        if got_ != facts:
                            out.append((f"C12:captured-unit-reread-on-construction:{edit_kind}", {"history": hist[: step + 1], "probe": probe, "captured_at": st0, "how": how, "was": facts, "data_carries": got_}))
                            return out
                except Exception as e_:
                    out.append((f"C12:captured-unit-unusable-on-construction:{edit_kind}:{type(e_).__name__}", {"history": hist[: step + 1], "probe": probe, "captured_at": st0, "error": str(e_)[:120]}))
                    return out
            if now != facts:
                out.append((f"C12:captured-unit-changed:{edit_kind}", {"history": hist[: step + 1], "probe": probe, "captured_at": st0, "was": facts, "now": now}))
                return out
        # quantities created earlier keep their meaning: converting one to the *current* unit of the same spelling rescales it
        for probe, st0, qobj, facts in held[-6:]:
            cur = _eval_probe(model, probe)
            if cur is None:
                continue
            want_v = None if cur[1] != facts[1] else 6.0 * facts[0] / cur[0]
            for rn, rf in {"to": lambda: float(qobj.to(probe).v), "in_units": lambda: float(qobj.in_units(probe).v), "convert_to_units": lambda: float((lambda c_: (c_.convert_to_units(probe), c_)[1])(qobj.copy()).v),
                           "add-to-new": lambda: float((unyt_quantity(0.0, probe, registry=reg) + qobj).v), "order-vs-new": lambda: (want_v or 1.0) if (bool(qobj < unyt_quantity((want_v or 1.0) * 1.001, probe, registry=reg)) and bool(qobj > unyt_quantity((want_v or 1.0) * 0.999, probe, registry=reg))) else 0.0}.items():
                try:
                    got_v = rf()
                    err = None
                except Exception as e:
                    got_v, err = None, type(e).__name__
                if want_v is None:
                    ok = err is not None
                else:
                    ok = err is None and abs(got_v / want_v - 1) < 1e-12
                if not ok:
                    out.append((f"C12:held-quantity-vs-current-unit:{rn}", {"history": hist[: step + 1], "spelling": probe, "created_at": st0, "scale_then": facts[0], "now": cur[0],
                                                                           "dim_then": T.dim_name(facts[1]), "dim_now": T.dim_name(cur[1]), "got": got_v, "error": err, "want": want_v}))
                    return out
        # probe sweep
        ucopy_reg = Unit("m", registry=reg).copy().registry
        for probe in PROBES:
            exp = _eval_probe(model, probe)
            obs = observe(reg, probe)
            spell = "atomic" if probe.isalpha() or probe in ("µfoo",) else "compound"
            if probe in ("kfoo", "mfoo", "Mfoo", "µfoo", "dafoo", "kqux", "kpc", "Mpc", "mpc"):
                spell = "prefixed"
            if any(a in probe for a in ALIASES):
                spell = "written-out-name"
            sym = "foo" if "foo" in probe else "qux" if "qux" in probe else "pc" if ("pc" in probe or "parsec" in probe) else "other"
            if exp is None:
                if obs[0] != "unknown":
                    out.append((f"C12:stale-after-{edit_kind}:unknown-symbol-resolves:{spell}:{sym}", {"history": hist[: step + 1], "probe": probe, "got": obs}))
                    return out
                continue
            if obs[0] == "unknown":
                out.append((f"C12:known-symbol-unknown:{spell}:{sym}", {"history": hist[: step + 1], "probe": probe, "error": obs[1], "want": exp}))
                return out
            if obs[2] != exp[1] or abs(obs[1] / exp[0] - 1) > 1e-12:
                out.append((f"C12:stale-after-{edit_kind}:{spell}:{sym}", {"history": hist[: step + 1], "probe": probe, "got": [obs[1], T.dim_name(obs[2])], "want": [exp[0], T.dim_name(exp[1])]}))
                return out
            for hname, h in (("shallow-copy", twin), ("unit-copy", ucopy_reg)):
                obs2 = observe(h, probe)
                if obs2 != obs and not (obs2[0] == obs[0] == "unit" and obs2[2] == obs[2] and abs(obs2[1] / obs[1] - 1) < 1e-14):
                    out.append((f"C12:stale-after-{edit_kind}:handle-disagrees:{hname}:{spell}:{sym}", {"history": hist[: step + 1], "probe": probe, "through_registry": obs, "through_handle": obs2,
                                                                                                      "edited_through": "registry" if (step + len(hist)) % 2 == 0 else "shallow copy"}))
                    return out
            if step + 1 < len(hist) and probe in ("foo", "kfoo", "foo**2/s", "pc", "qux"):
                captured.append((probe, step, Unit(probe, registry=reg), (obs[1], obs[2], obs[3])))
                if probe in ("foo", "pc", "kfoo"):
                    held.append((probe, step, unyt_quantity(6.0, probe, registry=reg), (obs[1], obs[2], obs[3])))
        # arithmetic / conversion observations (also warm the lru caches before the next edit)
        if deep and model.resolve("foo") is not None:
            fs, fd, _ = model.resolve("foo")
            try:
                q = unyt_quantity(6.0, "foo", registry=reg)
                si = "m" if fd == T.LENGTH else "s"
                checks = {
                    "to(SI)": (lambda: float(q.to(si).v), 6.0 * fs),
                    "in_base": (lambda: float(q.in_base("mks").v), 6.0 * fs),
                    "in_base(own system)": ((lambda: (lambda r: float(r.v * r.units.base_value))(q.in_base())), 6.0 * fs) if model.entry("pc") == default_entry("pc") else None,
                    "q*q": (lambda: float((q * q).v * (q * q).units.base_value), 36.0 * fs * fs),
                    "q/SI simplify": (lambda: float((q / unyt_quantity(1.0, si, registry=reg)).to("dimensionless").v), 6.0 * fs),
                    "q*s/SI": (lambda: (lambda r: float(r.v * r.units.base_value))(q * unyt_quantity(1.0, "s", registry=reg) / unyt_quantity(1.0, si, registry=reg)), 6.0 * fs),
                    "kfoo+foo": (lambda: (lambda r: float(r.v * r.units.base_value))(unyt_quantity(1.0, "kfoo", registry=reg) + q), model.resolve("kfoo")[0] + 6.0 * fs)
                    if model.resolve("kfoo") and model.resolve("kfoo")[1] == fd else None,
                    "array.sum": (lambda: (lambda r: float(r.v * r.units.base_value))(unyt_array([1.0, 2.0], "foo", registry=reg).sum()), 3.0 * fs),
                    "sqrt(q*q)": (lambda: (lambda r: float(r.v * r.units.base_value))(np.sqrt(q * q)), 6.0 * fs),
                }
                # the unit a result *prints* must be the unit it carries (expression and scale in sync)
                for nm, mk in {"q*s/SI": lambda: q * unyt_quantity(1.0, "s", registry=reg) / unyt_quantity(1.0, si, registry=reg), "q*q": lambda: q * q,
                               "q/SI": lambda: q / unyt_quantity(1.0, si, registry=reg), "q/q": lambda: q / unyt_quantity(2.0, "foo", registry=reg)}.items():
                    r_ = mk()
                    printed = Unit(str(r_.units), registry=reg)
                    if abs(float(printed.base_value) / float(r_.units.base_value) - 1) > 1e-12 or R.dimvec_of(printed.dimensions) != R.dimvec_of(r_.units.dimensions):
                        out.append((f"C12:stale-after-{edit_kind}:result-unit-out-of-sync:{nm}", {"history": hist[: step + 1], "result": repr(r_)[:80],
                                                                                                  "carried_scale": float(r_.units.base_value), "printed_unit_scale": float(printed.base_value)}))
                        return out
                for nm, chk in checks.items():
                    if chk is None:
                        continue
                    fn, want_v = chk
                    got_v = fn()
                    if abs(got_v / want_v - 1) > 1e-12:
                        out.append((f"C12:stale-after-{edit_kind}:arithmetic:{nm}", {"history": hist[: step + 1], "got": got_v, "want": want_v}))
                        return out
            except Exception as e:
                esc = core.escaped_from_library(e)
                out.append((f"C12:arithmetic-raises:{type(e).__name__}", {"history": hist[: step + 1], "error": str(e)[:160], "where": esc}))
                return out
        # a deep copy taken mid-history is a registry of its own: it keeps answering with the contents it was copied with,
        # whatever the original has memoised before or is edited to afterwards
        if fork is None and step == (len(hist) - 1) // 2 and len(hist) >= 2:
            fork = (_copy.deepcopy(reg) if len(hist) % 2 else _copy.deepcopy(unyt_quantity(1.0, "foo*s" if model.resolve("foo") else "m/s", registry=reg)).units.registry, _copy.deepcopy(model), step)
        elif fork is not None:
            freg, fmodel, fstep = fork
            for probe in PROBES:
                exp = _eval_probe(fmodel, probe)
                obs = observe(freg, probe)
                bad_ = (exp is None) != (obs[0] == "unknown") or (exp is not None and (obs[2] != exp[1] or abs(obs[1] / exp[0] - 1) > 1e-12))
                if not bad_ and obs[0] == "unit" and Unit(probe, registry=freg).registry is not freg:
                    bad_ = True
                if bad_:
                    out.append((f"C12:deep-copy-follows-the-original:{edit_kind}", {"history": hist[: step + 1], "copied_after_step": fstep, "probe": probe, "got": obs, "want_from_contents_at_copy": exp}))
                    return out
        kinds.append(edit_kind)
    # non-trivial: construct -> edit -> construct of the same or a derived spelling
    if len(hist) >= 2 and any(k in ("mod", "rm") or (k == "add") for k in kinds[1:]):
        part.nt(tuple(hist))
    return out


def part_bfs(payload):
    known = core.Known("C12")
    part = core.Part()
    for hist in payload["hists"]:
        for key, det in judge_history(list(hist), part, deep=payload["deep"]):
            core.classify(known, part, key, det)
        if len(part.samples) < 1 and len(hist) >= 3:
            part.sample({"history": list(hist), "probes": PROBES[:8]})
    return part


def _case(hist, part):
    return judge_history(hist, part)


def part_random(payload):
    known = core.Known("C12")
    part = core.Part()
    core.hyp_explore(part, known, st.lists(st.sampled_from(OPS), min_size=5, max_size=40), _case, payload["n"], payload["seed"], label="C12:histories")
    return part


def run(ctx):
    L = ctx.pick(3, 4)
    hists = [h for n in range(1, L + 1) for h in itertools.product(OPS, repeat=n)]
    ctx.rule = (
        f"exhaustive BFS over all {len(hists)} histories of length <= {L} on a {len(OPS)}-letter alphabet (add / re-add with other scale, dimension or "
        f"prefixability / modify by float / modify by quantity / remove / define_unit on foo, qux, kfoo, pc, baz) with a sweep of {len(PROBES)} probe "
        "strings (atomic, SI-prefixed, compound, sqrt, colliding spellings) plus 8 arithmetic/conversion observations after every step; Hypothesis "
        "histories of length 5-40 beyond. Oracle: dict model + own prefix resolver. non-trivial = distinct histories with an edit after an observation"
    )
    ctx.assumptions = [
        "scales of unedited default symbols (pc, s, m, yr) are read from the library's table as data",
        "the model mirrors the documented registry semantics: exact symbol wins over prefix+symbol; prefixes apply only to symbols flagged prefixable",
    ]
    ctx.exhaustive = True
    ctx.merge(core.pmap(MOD, "part_bfs", [{"hists": sh, "deep": True} for sh in core.shards(hists, 32)]))
    n = ctx.pick(480, 9600)
    ctx.merge(core.pmap(MOD, "part_random", [{"n": n // 16, "seed": ctx.seed * 1000 + i} for i in range(16)]))


def replay(ctx, data):
    d = data["detail"]
    hist = d.get("history") or d.get("case") or (d.get("detail") or {}).get("history")
    for key, det in judge_history(list(hist), ctx):
        ctx.violation(key, det)
