"""C15 -- physical constants are coherent across unit systems and with the unit table.

Exhaustive over constants x alias names x {default,_mks,_cgs} x registries built with
each built-in unit system; oracle = cross-guise equality of SI magnitudes, hand-written
defining relations, hand-written reference values with tolerance classes."""

import math

import mpmath as mp

from vf.oracle import resolve as R
from vf.oracle import table as T

# golden alias -> canonical constant (hand-written subset; full alias inventory is
# read from unyt as data and each alias must equal its canonical constant)
GOLDEN_ALIASES = {
    "speed_of_light": "c", "clight": "c", "boltzmann_constant": "kb", "kboltz": "kb",
    "gravitational_constant": "G", "newtons_constant": "G", "planck_constant": "h",
    "reduced_planck_constant": "hbar", "stefan_boltzmann_constant": "σ",
    "radiation_density_constant": "a", "mass_electron": "me", "electron_mass": "me",
    "proton_mass": "mp", "mass_proton": "mp", "hydrogen_mass": "mh", "mass_hydrogen": "mh",
    "elementary_charge": "qp", "proton_charge": "qp", "electron_charge": "qe",
    "avogadros_number": "Na", "Avogadros_number": "Na", "solar_mass": "Msun", "mass_sun": "Msun",
    "jupiter_mass": "Mjup", "earth_mass": "Mearth", "planck_mass": "m_pl",
    "planck_length": "l_pl", "planck_time": "t_pl", "planck_energy": "E_pl",
    "planck_charge": "q_pl", "planck_temperature": "T_pl", "vacuum_permeability": "mu_0",
    "magnetic_constant": "mu_0", "vacuum_permittivity": "eps_0", "electric_constant": "eps_0",
    "epsilon_0": "eps_0", "rydberg_constant": "R_inf", "CMB_temperature": "Tcmb",
    "thomson_cross_section": "σ_T", "sigma_thomson": "σ_T", "mass_mercury": "mercury_mass",
    "mass_venus": "venus_mass", "mass_mars": "mars_mass", "mass_saturn": "saturn_mass",
    "mass_uranus": "uranus_mass", "mass_neptune": "neptune_mass",
    # the rest of the documented inventory (docs/usage.rst "Physical constants" + the historical 'thompson' misspellings kept for
    # backwards compatibility): with these the list is complete, so a name that moves to another row is judged by value
    "sigma_thompson": "σ_T", "thompson_cross_section": "σ_T", "cross_section_thompson": "σ_T", "cross_section_thomson": "σ_T",
    "charge_proton": "qp", "charge_electron": "qe", "msun": "Msun", "m_sun": "Msun", "m_Sun": "Msun", "M_sun": "Msun",
    "M_Sun": "Msun", "mjup": "Mjup", "mass_jupiter": "Mjup", "mearth": "Mearth", "mass_earth": "Mearth", "μ_0": "mu_0",
    "ε_0": "eps_0", "R_∞": "R_inf",
}
CLASS_OVERRIDE = {"mh": "G"}  # standard atomic weight of H is an interval, ~1e-4

SYSTEMS = ["mks", "cgs", "imperial", "galactic", "solar", "geometrized", "planck"]

# Gaussian counterpart of an SI electromagnetic dimension: SI dimvec -> (cgs dimvec,
# factor such that  value_in_cgs_base(g,cm,s reduced to kg,m,s scale) = SI * factor)
_c_cgs = T.c * 100


def _gauss_expect(si_mag, dim):
    """If *dim* is a pure SI EM dimension with a documented Gaussian counterpart, return
    (cgs dimvec, magnitude in MKS-reduced Gaussian units)."""
    table = {
        T.CHARGE: (T.CHARGE_CGS, _c_cgs / 10 * mp.mpf(10) ** mp.mpf("-4.5")),
        T.CURRENT: (T.CURRENT_CGS, _c_cgs / 10 * mp.mpf(10) ** mp.mpf("-4.5")),
        T.BFIELD: (T.BFIELD_CGS, mp.mpf(10) ** 4 * mp.sqrt(mp.mpf("0.1"))),
        T.EPOT: (T.EPOT_CGS, mp.mpf(10) ** 8 / _c_cgs * mp.mpf(10) ** mp.mpf("-2.5")),
        T.RESIST: (T.RESIST_CGS, mp.mpf(10) ** 9 / _c_cgs**2 * 100),
    }
    if dim in table:
        d, f = table[dim]
        return d, si_mag * f
    return None


def si(q):
    return float(q.value) * float(q.units.base_value), R.dimvec_of(q.units.dimensions)


def relerr(a, b):
    if a == b:
        return 0.0
    if b == 0 or a == 0:
        return float("inf")
    return abs(a / b - 1)


def run(ctx):
    import unyt
    from unyt import Unit, unyt_quantity
    from unyt import physical_constants as pc
    from unyt._unit_lookup_table import physical_constants as pct  # inventory (data)
    from unyt.unit_registry import UnitRegistry
    from unyt.unit_systems import add_constants

    ctx.rule = (
        "exhaustive: every constant x every alias x {plain,_mks,_cgs} x {default registry + one "
        "registry per built-in unit system}; all defining relations; every name shared by a unit and "
        "a constant. non-trivial = (constant, guise) beyond the canonical default name, relations, "
        "overlaps"
    )
    ctx.exhaustive = True
    ctx.assumptions = [
        "reference values and relations are hand-written in vf/oracle/table.py (CODATA 2018, IAU 2015)",
        "tolerance classes fixed in DESIGN.md §2.1; the alias inventory is read from unyt as data",
    ]
    TOL_SAME = 1e-12

    canon_names = list(pct.keys())
    # inventory vs oracle
    for cn in canon_names:
        if cn not in T.CONSTANTS:
            ctx.violation(f"C15:oracle-missing:{cn}", {"name": cn})
    for cn in T.CONSTANTS:
        if cn not in pct:
            ctx.violation(f"C15:constant-missing:{cn}", {"name": cn})

    default_si = {}
    for cn in canon_names:
        if cn not in T.CONSTANTS:
            continue
        ref, refdim, cls = T.CONSTANTS[cn]
        cls = CLASS_OVERRIDE.get(cn, cls)
        q = getattr(pc, cn)
        mag, dim = si(q)
        default_si[cn] = (mag, dim)
        ctx.ev()
        if cn == "Na":
            # unyt's mol is a pure number (N_A) so Na's SI magnitude is ~1; the published
            # value is the number per mole
            mag = float(q.to("1/mol").value)
        if dim != refdim:
            ctx.violation(f"C15:dimension:{cn}", {"name": cn, "got": dim, "want": refdim})
        elif relerr(mag, float(ref)) > T.TOL[cls]:
            ctx.violation(f"C15:value:{cn}", {"name": cn, "got": mag, "reference": float(ref),
                                            "class": cls, "rel": relerr(mag, float(ref))})
        ctx.sample({"constant": cn, "si": mag, "reference": float(ref), "class": cls}) if len(ctx.samples) < 4 else None

    def check_guises(ns, tag, getter):
        for cn in canon_names:
            if cn not in default_si:
                continue
            mag0, dim0 = default_si[cn]
            aliases = list(pct[cn][2])
            for name in [cn] + aliases:
                for suffix in ("", "_mks", "_cgs"):
                    full = name + suffix
                    q = getter(ns, full)
                    if q is None:
                        if suffix != "_cgs":
                            ctx.ev()
                            ctx.violation(f"C15:missing-guise:{cn}", {"name": full, "where": tag})
                        continue
                    ctx.ev()
                    if (name, suffix) != (cn, "") or tag != "default":
                        ctx.nt((tag, full))
                    mag, dim = si(q)
                    if dim == dim0:
                        if relerr(mag, mag0) > TOL_SAME:
                            ctx.violation(f"C15:guise-differs:{cn}", {"name": full, "where": tag, "got": mag, "canonical": mag0})
                    else:
                        g = _gauss_expect(mp.mpf(mag0), dim0)
                        if g is None or dim != g[0]:
                            ctx.violation(f"C15:guise-dimension:{cn}", {"name": full, "where": tag, "got": dim, "want": dim0})
                        elif relerr(mag, float(g[1])) > 1e-9:
                            ctx.violation(f"C15:guise-em-value:{cn}", {"name": full, "where": tag, "got": mag, "want": float(g[1])})
                    if suffix == "_mks":
                        # must be expressed in SI: numeric value equals SI magnitude
                        if relerr(float(q.value), mag0) > TOL_SAME and dim == dim0 and "mol" not in str(q.units):
                            ctx.violation(f"C15:mks-not-si:{cn}", {"name": full, "where": tag, "value": float(q.value), "units": str(q.units)})
                if name != cn and name in GOLDEN_ALIASES and GOLDEN_ALIASES[name] != cn:
                    ctx.violation(f"C15:alias-retargeted:{name}", {"alias": name, "points_to": cn, "golden": GOLDEN_ALIASES[name]})

    check_guises(pc, "default", lambda ns, n: getattr(ns, n, None))
    # top-level namespace: constants win over units of the same name
    for cn in canon_names:
        for name in [cn] + list(pct[cn][2]):
            if not hasattr(unyt, name):
                ctx.ev()
                ctx.violation(f"C15:not-exported:{cn}", {"name": name})
                continue
            ctx.ev()
            top = getattr(unyt, name)
            if not isinstance(top, unyt_quantity):
                ctx.violation(f"C15:namespace-precedence:{cn}", {"name": name, "type": type(top).__name__})
            elif cn in default_si and relerr(si(top)[0], default_si[cn][0]) > TOL_SAME:
                ctx.violation(f"C15:export-differs:{cn}", {"name": name})
    for al, cn in GOLDEN_ALIASES.items():
        ctx.ev()
        if cn not in pct or al not in pct[cn][2]:
            ctx.violation(f"C15:golden-alias-missing:{al}", {"alias": al, "constant": cn})
    # ... and by value, whatever row the library files the name under: each documented alias (plain, _mks, same-dimension _cgs)
    # is the quantity its documented constant is
    for al, cn in GOLDEN_ALIASES.items():
        if cn not in default_si:
            continue
        for suffix in ("", "_mks", "_cgs"):
            for where, q in (("physical_constants", getattr(pc, al + suffix, None)), ("unyt", getattr(unyt, al + suffix, None))):
                if q is None or not isinstance(q, unyt_quantity):
                    continue
                ctx.ev()
                ctx.nt(("golden-alias-value", where, al + suffix))
                mg, dm = si(q)
                if dm == default_si[cn][1] and relerr(mg, default_si[cn][0]) > TOL_SAME:
                    ctx.violation(f"C15:documented-alias-differs-from-its-constant:{cn}", {"alias": al + suffix, "where": where, "got": mg, "constant": default_si[cn][0], "rel": relerr(mg, default_si[cn][0])})
    # inventory the other way round: an alias the documentation does not know cannot be judged
    for cn in canon_names:
        for al in pct[cn][2]:
            if al not in GOLDEN_ALIASES:
                ctx.violation(f"C15:oracle-missing-alias:{al}", {"alias": al, "row": cn})

    # per-unit-system registries
    for sname in SYSTEMS:
        reg = UnitRegistry(unit_system=sname)
        ns = {}
        add_constants(ns, reg)
        check_guises(ns, "system=" + sname, lambda d, n: d.get(n))
        ctx.count("registries", 1)

    # histories: registries that share a unit-system name but differ in the size of that system's base units, built one after
    # the other (plain above, re-scaled here, plain again).  In a re-scaled registry the constants mean something else than the
    # defaults, but all guises of one constant must still be one quantity; and the plain registry built afterwards is unaffected.
    from unyt.unit_systems import unit_system_registry

    for sname in SYSTEMS:
        reg = UnitRegistry(unit_system=sname)
        usys = unit_system_registry[sname]
        nres = 0
        for k_, dimname in enumerate(("length", "mass", "time")):
            for sym in sorted(str(a) for a in usys[dimname].expr.free_symbols):
                try:
                    reg.modify(sym, float(reg.lut[sym][0]) * (2.0 + k_))
                    nres += 1
                except Exception:
                    pass
        ns = {}
        add_constants(ns, reg)
        for cn in canon_names:
            if cn not in default_si:
                continue
            ref = ns.get(cn + "_mks")
            if ref is None:
                continue
            m0, d0 = si(ref)
            for name in [cn] + list(pct[cn][2]):
                for suffix in ("", "_cgs"):
                    q = ns.get(name + suffix)
                    if q is None:
                        continue
                    ctx.ev()
                    ctx.nt(("rescaled-registry", sname, name + suffix))
                    mg, dm = si(q)
                    if dm == d0 and relerr(mg, m0) > 1e-11:
                        ctx.violation(f"C15:guises-differ-in-rescaled-registry:{cn}", {"system": sname, "name": name + suffix, "got_si": mg, "mks_guise_si": m0, "rescaled_symbols": nres})
        ns = {}
        add_constants(ns, UnitRegistry(unit_system=sname))
        check_guises(ns, "system=" + sname + " (after a re-scaled registry of the same system)", lambda d, n: d.get(n))
        ctx.count("re-scaled registries", 1)

    # user-defined unit systems, including offset temperature scales and quantity-valued bases: the constants built for such
    # a registry must be the same physical quantities (compared after converting back to the default constant's unit, so that
    # zero-point offsets are honoured)
    from unyt import UnitSystem

    custom = [("vfc15_degF", ("ft", "lb", "s"), {"temperature_unit": "degF"}), ("vfc15_degC", ("cm", "g", "s"), {"temperature_unit": "degC"}),
              ("vfc15_R", ("mile", "Msun", "yr"), {"temperature_unit": "R", "angle_unit": "degree"}), ("vfc15_mK", ("km", "kg", "hr"), {"temperature_unit": "mK", "current_mks_unit": "mA"})]
    for sname, bases, kw in custom:
        try:
            UnitSystem(sname, *bases, **kw)
            reg = UnitRegistry(unit_system=sname)
            ns = {}
            add_constants(ns, reg)
        except Exception as e:
            ctx.violation(f"C15:custom-unit-system-constants-raise:{type(e).__name__}", {"system": sname, "error": str(e)[:200]})
            continue
        for cn in canon_names:
            if cn not in default_si:
                continue
            for name in [cn] + list(pct[cn][2]):
                q = ns.get(name)
                ref = getattr(pc, cn)
                if q is None:
                    continue
                ctx.ev()
                ctx.nt(("custom-system", sname, name))
                try:
                    back = float(q.to(ref.units).value)
                except Exception as e:
                    ctx.violation(f"C15:custom-system-constant-not-convertible:{cn}", {"system": sname, "name": name, "got": repr(q)[:80], "error": type(e).__name__})
                    continue
                if relerr(back, float(ref.value)) > 1e-11:
                    ctx.violation(f"C15:custom-system-constant-differs:{cn}", {"system": sname, "name": name, "got": repr(q)[:80], "converted_back": back, "default": float(ref.value)})
        ctx.count("custom unit-system registries", 1)

    # defining relations (library values only, 1e-12)
    g = {k: mp.mpf(v[0]) for k, v in default_si.items()}
    pi = mp.pi
    rels = {
        "hbar=h/2pi": (g["hbar"], g["h"] / (2 * pi)),
        "eps0*mu0*c^2=1": (g["eps_0"] * g["mu_0"] * g["c"] ** 2, mp.mpf(1)),
        "sigma=2pi^5k^4/(15c^2h^3)": (g["σ"], 2 * pi**5 * g["kb"] ** 4 / (15 * g["c"] ** 2 * g["h"] ** 3)),
        "a=4sigma/c": (g["a"], 4 * g["σ"] / g["c"]),
        "Rinf=me e^4/(8 eps0^2 h^3 c)": (g["R_inf"], g["me"] * g["qp"] ** 4 / (8 * g["eps_0"] ** 2 * g["h"] ** 3 * g["c"])),
        "m_pl=sqrt(hbar c/G)": (g["m_pl"], mp.sqrt(g["hbar"] * g["c"] / g["G"])),
        "l_pl=sqrt(hbar G/c^3)": (g["l_pl"], mp.sqrt(g["hbar"] * g["G"] / g["c"] ** 3)),
        "t_pl=l_pl/c": (g["t_pl"], g["l_pl"] / g["c"]),
        "E_pl=m_pl c^2": (g["E_pl"], g["m_pl"] * g["c"] ** 2),
        "T_pl=E_pl/kb": (g["T_pl"], g["E_pl"] / g["kb"]),
        "q_pl=sqrt(4pi eps0 hbar c)": (g["q_pl"], mp.sqrt(4 * pi * g["eps_0"] * g["hbar"] * g["c"])),
        "qe=-qp": (g["qe"], -g["qp"]),
        "mu0=4pi e-7 (pre-2019 SI, as the library defines it)": (g["mu_0"], 4 * pi * mp.mpf("1e-7")),
    }
    for name, (lhs, rhs) in rels.items():
        ctx.ev()
        ctx.nt(("relation", name))
        r = float(abs(lhs / rhs - 1))
        if r > 1e-12:
            ctx.violation(f"C15:relation:{name}", {"relation": name, "lhs": float(lhs), "rhs": float(rhs), "rel": r})
    ctx.sample({"relation": "sigma=2pi^5k^4/(15c^2h^3)", "residual": float(abs(rels["sigma=2pi^5k^4/(15c^2h^3)"][0] / rels["sigma=2pi^5k^4/(15c^2h^3)"][1] - 1))})

    # names that are both a unit and a constant
    allc = {}
    for cn in canon_names:
        for name in [cn] + list(pct[cn][2]):
            allc[name] = cn
    novl = 0
    for name, cn in allc.items():
        try:
            u = Unit(name)
        except Exception:
            continue
        # a unit of that name exists
        novl += 1
        ctx.ev()
        ctx.nt(("overlap", name))
        umag = float(u.base_value)
        udim = R.dimvec_of(u.dimensions)
        cmag, cdim = default_si[cn]
        if udim != cdim:
            # homonyms of different dimension (G = gauss / Newton's constant, hbar =
            # hectobar / reduced Planck constant) cannot denote one quantity; not judged
            ctx.count("homonym unit/constant of different dimension: " + name)
            continue
        if relerr(umag, cmag) > TOL_SAME:
            ctx.violation(f"C15:unit-vs-constant:{cn}", {"name": name, "unit_si": umag, "constant_si": cmag,
                                                        "rel": relerr(umag, cmag)})
        if novl <= 3:
            ctx.sample({"overlap": name, "unit_si": umag, "constant_si": cmag})
    ctx.count("unit/constant overlapping names", novl)
