"""C18 -- non-mutating calls do not mutate; failed calls leave their operands intact.

Fault enumeration over call sites x operand positions x fault kinds, with generated data:
 (F) in-place calls (convert_to_*, augmented assignment, out=, item assignment, in-place NumPy
     functions) with an injected fault (dimension mismatch, unknown unit, irreducible unit,
     invalid equivalence, non-dimensionless exponent, no float of that size): if the call
     raises, numbers and unit of the target must be what they were;
 (S) in-place calls that succeed change only their target and produce exactly the numbers of
     the corresponding copying call;
 (N) copying calls (conversion routes, equivalences, operators, ufuncs, the whole NumPy
     catalogue without out=/in-place templates, Unit arithmetic) leave bytes, dtype and units of
     every input -- operands are strided *views* of larger buffers whose other elements are
     checked too -- exactly as they were.
Faults run first in every case so that state left behind by a failed call (e.g. a mode flag)
is exposed by the non-mutation checks that follow.
"""

import numpy as np
from hypothesis import strategies as st

from vf import core
from vf.catalog import numpy_calls as C
from vf.oracle import resolve as R

MOD = "vf.checks.c18"
UNITS_A = ["km", "m", "cm", "km/m", "J/erg", "m*s/s", "kg*m**2/s**2", "g", "mile/hr", "N*m", "degC", "K", "keV", "Hz*s*km"]
SENT = 123.456


def unit_facts(u):
    return (str(u.expr), float(u.base_value), float(u.base_offset), R.dimvec_of(u.dimensions), str(u), repr(u))


class Operand:
    """a quantity that is a strided view of a larger sentinel-filled buffer"""

    def __init__(self, values, unit, dtype="float64", contiguous=False, registry=None):
        from unyt import unyt_array, unyt_quantity

        v = np.asarray(values, dtype=dtype)
        self.scalar = v.shape == ()
        if self.scalar:
            self.base = None
            self.q = unyt_quantity(v, unit, registry=registry)
        elif contiguous:
            self.base = np.full((v.size + 2,), SENT if v.dtype.kind == "f" else 7, dtype=dtype)
            self.base[1:-1] = v.ravel()
            self.q = unyt_array(self.base, unit, registry=registry)[1:-1].reshape(v.shape)
        else:
            self.base = np.full(v.shape[:-1] + (2 * v.shape[-1] + 1,), SENT if v.dtype.kind == "f" else 7, dtype=dtype)
            self.base[..., 1::2] = v
            self.q = unyt_array(self.base, unit, registry=registry)[..., 1::2]
        self.snap0 = self.snap()

    def snap(self):
        q = self.q
        return {"bytes": (self.base if self.base is not None else np.asarray(q)).tobytes(), "dtype": str(q.dtype), "shape": q.shape,
                "units": unit_facts(q.units), "vals": np.array(np.asarray(q), copy=True), "name": getattr(q, "name", None)}

    def changed(self, numbers_and_units_only=False):
        now = self.snap()
        diffs = []
        if numbers_and_units_only:
            a, b = self.snap0["vals"], now["vals"]
            if a.shape != b.shape or not np.array_equal(a.astype(complex), b.astype(complex), equal_nan=True):
                diffs.append(("numbers", repr(a.ravel()[:4]), repr(b.ravel()[:4])))
        else:
            if now["bytes"] != self.snap0["bytes"]:
                diffs.append(("bytes (operand or its surrounding buffer)", repr(self.snap0["vals"].ravel()[:4]), repr(now["vals"].ravel()[:4])))
            if now["dtype"] != self.snap0["dtype"]:
                diffs.append(("dtype", self.snap0["dtype"], now["dtype"]))
            if now["shape"] != self.snap0["shape"]:
                diffs.append(("shape", self.snap0["shape"], now["shape"]))
        u0, u1 = self.snap0["units"], now["units"]
        if numbers_and_units_only:
            if u0[1:4] != u1[1:4]:
                diffs.append(("units", u0[0], u1[0]))
        elif u0 != u1:
            diffs.append(("units", u0, u1))
        return diffs


@st.composite
def case(draw):
    n = draw(st.integers(1, 4))
    return {"vals": [draw(st.integers(-40, 40)) / 4 or 1.25 for _ in range(n)], "vals2": [draw(st.integers(1, 40)) / 4 for _ in range(n)],
            "unit": draw(st.sampled_from(UNITS_A)), "dtype": draw(st.sampled_from(["float64", "float64", "float32", "int64", "int8", "int32"])),
            "seq": draw(st.lists(st.integers(0, 1000), min_size=6, max_size=14))}


# ----------------------------------------------------------------------------------------- faults
def fault_calls():
    """(name, fault kind, callable(target Operand, other quantity) ) -- each is an in-place form expected to be refused"""
    import unyt
    from unyt import unyt_array, unyt_quantity

    s2 = lambda t: unyt_array(np.ones(t.q.shape), "s")  # noqa: E731  other dimension
    a2 = lambda t: unyt_array(np.full(t.q.shape, 2.0), t.q.units)  # noqa: E731  an operand in the target's unit that is not the target
    return [
        ("convert_to_units(other dimension)", "dimension", lambda t: t.q.convert_to_units("s")),
        ("convert_to_units(unknown unit)", "unknown-unit", lambda t: t.q.convert_to_units("flurbs")),
        ("convert_to_units(malformed)", "unknown-unit", lambda t: t.q.convert_to_units("m**")),
        ("convert_to_units(equivalence=bogus)", "equivalence", lambda t: t.q.convert_to_units("K", equivalence="bogus")),
        ("convert_to_units(thermal, wrong dims)", "equivalence", lambda t: t.q.convert_to_units("g", equivalence="thermal")),
        ("convert_to_equivalent(thermal->g)", "equivalence", lambda t: t.q.convert_to_equivalent("g", "thermal")),
        ("convert_to_equivalent(mass_energy->s)", "equivalence", lambda t: t.q.convert_to_equivalent("s", "mass_energy")),
        ("convert_to_equivalent(spectral->K)", "equivalence", lambda t: t.q.convert_to_equivalent("K", "spectral")),
        ("convert_to_base(bogus system)", "unit-system", lambda t: t.q.convert_to_base("bogus")),
        ("convert_to_base(equivalence=bogus)", "equivalence", lambda t: t.q.convert_to_base("mks", equivalence="bogus")),
        ("x += other dimension", "dimension", lambda t: t.q.__iadd__(s2(t))),
        ("x -= other dimension", "dimension", lambda t: t.q.__isub__(s2(t))),
        ("x %= other dimension", "dimension", lambda t: t.q.__imod__(s2(t))),
        ("x **= dimensional exponent", "exponent", lambda t: t.q.__ipow__(unyt_quantity(2.0, "s"))),
        ("x **= non-uniform exponents", "exponent", lambda t: t.q.__ipow__(np.arange(1, t.q.size + 1, dtype=float).reshape(t.q.shape) + (0 if t.q.size == 1 else 0))),
        ("x += 3 (bare non-zero)", "dimension", lambda t: t.q.__iadd__(3.0)),
        ("np.add(x, other dimension, out=x)", "dimension", lambda t: np.add(t.q, s2(t), out=t.q)),
        ("np.maximum(x, other dimension, out=x)", "dimension", lambda t: np.maximum(t.q, s2(t), out=t.q)),
        ("np.subtract(other, x, out=x)", "dimension", lambda t: np.subtract(s2(t), t.q, out=t.q)),
        ("np.power(x, dimensional, out=x)", "exponent", lambda t: np.power(t.q, unyt_quantity(2.0, "s"), out=t.q)),
        ("x[0] = other dimension", "dimension", lambda t: t.q.__setitem__(0 if t.q.ndim else (), unyt_quantity(1.0, "s"))),
        ("x[:] = other dimension array", "dimension", lambda t: t.q.__setitem__(slice(None) if t.q.ndim else (), s2(t))),
        ("x[mask] = other dimension", "dimension", lambda t: t.q.__setitem__(np.ones(t.q.shape, bool), unyt_quantity(1.0, "s"))),
        ("np.put(x, 0, other dimension)", "dimension", lambda t: np.put(t.q, 0, unyt_quantity(1.0, "s"))),
        ("np.putmask(x, mask, other dimension)", "dimension", lambda t: np.putmask(t.q, np.ones(t.q.shape, bool), s2(t))),
        ("np.place(x, mask, other dimension)", "dimension", lambda t: np.place(t.q, np.ones(t.q.shape, bool), s2(t))),
        ("np.copyto(x, other dimension) [documented to relabel]", "none", None),
        ("np.fill_diagonal(x, other dimension)", "dimension", lambda t: np.fill_diagonal(t.q.reshape(1, -1) if t.q.ndim < 2 else t.q, unyt_quantity(1.0, "s")) if t.q.ndim >= 2 else (_ for _ in ()).throw(TypeError("n/a"))),
        ("x.fill(other dimension)", "dimension", lambda t: t.q.fill(unyt_quantity(1.0, "s"))),
        ("np.clip(x, lo other dimension, None, out=x)", "dimension", lambda t: np.clip(t.q, unyt_quantity(0.0, "s"), unyt_quantity(1.0, "s"), out=t.q)),
        # a separate out= buffer (the target) that is none of the operands: a refused call must leave it as it was
        ("np.add(a, other dimension, out=target)", "dimension", lambda t: np.add(a2(t), s2(t), out=t.q)),
        ("np.add(a, other dimension, out=(target,))", "dimension", lambda t: np.add(a2(t), s2(t), out=(t.q,))),
        ("np.subtract(other dimension, a, out=target)", "dimension", lambda t: np.subtract(s2(t), a2(t), out=t.q)),
        ("np.maximum(a, other dimension, out=target)", "dimension", lambda t: np.maximum(a2(t), s2(t), out=t.q)),
        ("np.hypot(a, other dimension, out=target)", "dimension", lambda t: np.hypot(a2(t), s2(t), out=t.q)),
        ("np.power(a, dimensional exponent, out=target)", "exponent", lambda t: np.power(a2(t), unyt_quantity(2.0, "s"), out=t.q)),
        ("np.multiply(degC, 2, out=target)", "offset", lambda t: np.multiply(unyt_array(np.ones(t.q.shape), "degC"), 2.0, out=t.q)),
        ("np.multiply(dB, a, out=target)", "offset", lambda t: np.multiply(unyt_array(np.ones(t.q.shape), "dB"), a2(t), out=t.q)),
        ("np.sqrt(degF, out=target)", "offset", lambda t: np.sqrt(unyt_array(np.ones(t.q.shape), "degF"), out=t.q)),
        ("np.clip(a, lo other dimension, hi, out=target)", "dimension", lambda t: np.clip(a2(t), unyt_quantity(0.0, "s"), unyt_quantity(1.0, "s"), out=t.q)),
        ("np.add(a, other dimension, out=target, where=True)", "dimension", lambda t: np.add(a2(t), s2(t), out=t.q, where=True)),
        # read-only targets: NumPy refuses the write; the label must not have moved on without the numbers
        ("convert_to_cgs (read-only target)", "read-only", lambda t: (t.q.setflags(write=False), t.q.convert_to_cgs())),
        ("convert_to_base(galactic) (read-only target)", "read-only", lambda t: (t.q.setflags(write=False), t.q.convert_to_base("galactic"))),
        ("convert_to_units(2*unit) (read-only target)", "read-only", lambda t: (t.q.setflags(write=False), t.q.convert_to_units(2 * t.q.units))),
        ("convert_to_equivalent(spectral) (read-only target)", "read-only", lambda t: (t.q.setflags(write=False), t.q.convert_to_equivalent("Hz", "spectral"))),
        ("x *= x (read-only target)", "read-only", lambda t: (t.q.setflags(write=False), t.q.__imul__(t.q.copy()))),
        ("x /= quantity (read-only target)", "read-only", lambda t: (t.q.setflags(write=False), t.q.__itruediv__(unyt_quantity(2.0, "s")))),
        ("np.multiply(a, a, out=read-only target)", "read-only", lambda t: (t.q.setflags(write=False), np.multiply(a2(t), a2(t), out=t.q))),
        ("np.sqrt(a, out=read-only target)", "read-only", lambda t: (t.q.setflags(write=False), np.sqrt(a2(t), out=t.q))),
        ("x[0] = quantity (read-only target)", "read-only", lambda t: (t.q.setflags(write=False), t.q.__setitem__(0 if t.q.ndim else (), a2(t).ravel()[0]))),
        ("x.fill(quantity) (read-only target)", "read-only", lambda t: (t.q.setflags(write=False), t.q.fill(a2(t).ravel()[0]))),
        ("x *= x (offset scale)", "offset", lambda t: t.q.__imul__(2.0) if t.q.units.base_offset else (_ for _ in ()).throw(TypeError("n/a"))),
        ("x /= 2 (offset scale)", "offset", lambda t: t.q.__itruediv__(2.0) if t.q.units.base_offset else (_ for _ in ()).throw(TypeError("n/a"))),
        ("x //= other dimension ... (allowed: different dims divide)", "none", None),
        ("convert_to_cgs (irreducible EM compound)", "irreducible", lambda t: (lambda z: z.convert_to_cgs())(_em(t))),
        ("convert_to_units(kg) from 8-bit", "no-float", lambda t: t.q.convert_to_units("mm") if t.q.dtype.itemsize == 1 and t.q.dtype.kind in "iu" else (_ for _ in ()).throw(TypeError("n/a"))),
        ("convert_to_base from 8-bit", "no-float", lambda t: t.q.convert_to_cgs() if t.q.dtype.itemsize == 1 and t.q.dtype.kind in "iu" else (_ for _ in ()).throw(TypeError("n/a"))),
    ]


def _em(t):
    raise TypeError("n/a")


def run_faults(c, part, out, which):
    calls = [f for f in fault_calls() if f[2] is not None]
    for k in which:
        name, kind, fn = calls[k % len(calls)]
        contiguous = True
        t = Operand(c["vals"], c["unit"], c["dtype"], contiguous=contiguous)
        if t.scalar and ("[" in name or "put" in name or "place" in name or "fill" in name):
            continue
        part.ev()
        try:
            fn(t)
        except Exception as e:
            if isinstance(e, TypeError) and str(e) == "n/a":
                continue
            diffs = t.changed(numbers_and_units_only=True)
            part.count(f"fault raised: {kind}")
            part.nt((name, kind, c["dtype"], "raised"))
            if diffs:
                out.append((f"C18:failed-call-mutated-target:{name}", {"unit": c["unit"], "dtype": c["dtype"], "vals": c["vals"], "error": type(e).__name__, "diff": diffs}))
            elif t.changed() and t.snap0["dtype"] != t.snap()["dtype"]:
                part.count("observation: failed in-place call retyped the target (numbers and unit intact)")
            continue
        part.count(f"fault not refused: {kind} (C01/C08 judge refusals)")


# ------------------------------------------------------------------------------- copying calls
def copying_calls(u):
    """(name, callable(a, b)) -- documented to return new objects; a, b are Operands of the same unit"""
    import unyt
    import unyt.testing  # noqa: F401
    from unyt import Unit, unyt_quantity

    other = {"km": "m", "m": "km", "cm": "inch", "g": "kg", "mile/hr": "m/s", "N*m": "erg", "kg*m**2/s**2": "eV", "degC": "degF", "K": "R", "keV": "J",
             "km/m": "dimensionless", "J/erg": "dimensionless", "m*s/s": "cm", "Hz*s*km": "m"}[u]
    calls = [
        ("to", lambda a, b: a.q.to(other)), ("in_units", lambda a, b: a.q.in_units(other)), ("to_value", lambda a, b: a.q.to_value(other)),
        ("in_base", lambda a, b: a.q.in_base()), ("in_cgs", lambda a, b: a.q.in_cgs()), ("in_mks", lambda a, b: a.q.in_mks()),
        ("in_base(galactic)", lambda a, b: a.q.in_base("galactic")), ("to(same)", lambda a, b: a.q.to(u)), ("copy", lambda a, b: a.q.copy()),
        (".v", lambda a, b: a.q.v), ("to_ndarray", lambda a, b: a.q.to_ndarray()), ("str", lambda a, b: str(a.q)), ("repr", lambda a, b: repr(a.q)),
        ("units.get_base_equivalent", lambda a, b: a.q.units.get_base_equivalent()), ("units.get_cgs_equivalent", lambda a, b: a.q.units.get_cgs_equivalent()),
        ("units.as_coeff_unit", lambda a, b: a.q.units.as_coeff_unit()), ("units.copy", lambda a, b: a.q.units.copy()),
        ("units.latex_repr", lambda a, b: a.q.units.latex_representation()), ("units.is_dimensionless", lambda a, b: a.q.units.is_dimensionless),
        ("units*units", lambda a, b: a.q.units * b.q.units), ("units/units", lambda a, b: a.q.units / Unit("s")), ("units**2", lambda a, b: a.q.units**2),
        ("units==", lambda a, b: a.q.units == b.q.units), ("units.same_dimensions_as", lambda a, b: a.q.units.same_dimensions_as(Unit("m"))),
        ("units.list_equivalencies", lambda a, b: a.q.units.has_equivalent("thermal")),
        ("a+b", lambda a, b: a.q + b.q), ("a-b", lambda a, b: a.q - b.q), ("a*b", lambda a, b: a.q * b.q), ("a/b", lambda a, b: a.q / b.q),
        ("a*2.0", lambda a, b: a.q * 2.0), ("2.0*a", lambda a, b: 2.0 * a.q), ("a/2.0", lambda a, b: a.q / 2.0), ("np.multiply(a, 3.0)", lambda a, b: np.multiply(a.q, 3.0)),
        ("a**2", lambda a, b: a.q**2), ("-a", lambda a, b: -a.q), ("abs", lambda a, b: abs(a.q)), ("a<b", lambda a, b: a.q < b.q), ("a==b", lambda a, b: a.q == b.q),
        ("np.sqrt", lambda a, b: np.sqrt(abs(a.q))), ("np.add", lambda a, b: np.add(a.q, b.q)), ("np.maximum", lambda a, b: np.maximum(a.q, b.q)),
        ("np.sum", lambda a, b: np.sum(a.q)), ("a.sum", lambda a, b: a.q.sum()), ("a.mean", lambda a, b: a.q.mean()), ("a.std", lambda a, b: a.q.std()),
        ("np.dot", lambda a, b: np.dot(a.q.ravel(), b.q.ravel())), ("a*Unit", lambda a, b: a.q * Unit("s")), ("a*quantity(other units)", lambda a, b: a.q * unyt_quantity(2.0, "s")),
        ("a+mixed unit", lambda a, b: a.q + b.q.to(other) if not a.q.units.base_offset else None), ("np.concatenate", lambda a, b: np.concatenate([np.atleast_1d(a.q), np.atleast_1d(b.q)])),
        ("np.where", lambda a, b: np.where(np.asarray(a.q) > 0, a.q, b.q)), ("np.clip", lambda a, b: np.clip(a.q, b.q.min(), b.q.max())),
        ("np.sort", lambda a, b: np.sort(a.q, axis=None)), ("np.round", lambda a, b: np.round(a.q, 1)), ("np.isclose", lambda a, b: np.isclose(a.q, b.q)),
        ("np.allclose", lambda a, b: np.allclose(a.q, b.q)), ("np.array_equal", lambda a, b: np.array_equal(a.q, b.q)), ("np.linalg.norm", lambda a, b: np.linalg.norm(np.atleast_1d(a.q))),
        ("np.interp", lambda a, b: np.interp(np.atleast_1d(a.q), np.sort(np.atleast_1d(b.q)), np.atleast_1d(b.q))), ("np.histogram", lambda a, b: np.histogram(np.atleast_1d(a.q), bins=2)),
        ("np.var", lambda a, b: np.var(a.q)), ("np.prod", lambda a, b: np.prod(a.q)), ("np.cumsum", lambda a, b: np.cumsum(a.q)), ("np.diff", lambda a, b: np.diff(np.atleast_1d(a.q))),
        ("np.trapezoid", lambda a, b: np.trapezoid(np.atleast_1d(a.q), np.atleast_1d(b.q))), ("np.linspace", lambda a, b: np.linspace(a.q.min(), b.q.max(), 3)),
        ("unyt.allclose_units", lambda a, b: unyt.array.allclose_units(a.q, b.q)), ("np.vstack", lambda a, b: np.vstack([np.atleast_1d(a.q), np.atleast_1d(b.q)])),
        ("list of quantities", lambda a, b: unyt.unyt_array([a.q.ravel()[0] if a.q.ndim else a.q, (b.q.ravel()[0] if b.q.ndim else b.q).to(other)])),
        ("pickle", lambda a, b: __import__("pickle").dumps(a.q)), ("deepcopy", lambda a, b: __import__("copy").deepcopy(a.q)),
        # targets given as Unit objects, incl. one that lives in another registry (it is an input too: see _guards)
        ("to(Unit object)", lambda a, b: a.q.to(Unit(other))), ("to(Unit of another registry)", lambda a, b: a.q.to(_guard_unit(other))),
        ("in_units(Unit of another registry)", lambda a, b: a.q.in_units(_guard_unit(other))), ("to_value(Unit of another registry)", lambda a, b: a.q.to_value(_guard_unit(other))),
        ("a+b(other registry)", lambda a, b: a.q + (b.q.v * _guard_unit(u)) if not a.q.units.base_offset else None),
        ("to(equal-scale spelling)", lambda a, b: a.q.to({"N*m": "J", "kg*m**2/s**2": "J", "Hz*s*km": "km", "m*s/s": "m", "keV": "1000*eV"}.get(u, u))),
        ("allclose_units(atol=quantity in another unit)", lambda a, b: unyt.array.allclose_units(a.q.to(other), a.q.to(other), rtol=1e-7, atol=abs(b.q))),
        ("assert_allclose_units(atol=quantity in another unit)", lambda a, b: unyt.testing.assert_allclose_units(a.q.to(other), a.q.to(other), rtol=1e-7, atol=abs(b.q) if b.q.ndim == 0 else b.q)),
        ("allclose_units(rtol=quantity)", lambda a, b: unyt.array.allclose_units(a.q, a.q, rtol=(b.q / b.q) * 1e-7 if False else unyt_quantity(1e-5, "percent"), atol=b.q)),
        ("in_units(same)", lambda a, b: a.q.in_units(u)), ("in_base(own system)", lambda a, b: a.q.in_base("mks").in_base("mks")),
    ]
    # equivalence routes: copying forms after which the *input* must be intact
    if u in ("K",):
        calls += [("to_equivalent(thermal)", lambda a, b: a.q.to_equivalent("eV", "thermal")), ("to(thermal)", lambda a, b: a.q.to("erg", "thermal")),
                  ("in_units(thermal)", lambda a, b: a.q.in_units("J", equivalence="thermal")), ("to_value(thermal)", lambda a, b: a.q.to_value("keV", "thermal"))]
    if u in ("keV",):
        calls += [("to_equivalent(thermal)", lambda a, b: a.q.to_equivalent("K", "thermal")), ("to(spectral)", lambda a, b: abs(a.q).to("Hz", "spectral")),
                  ("to(mass_energy)", lambda a, b: a.q.to("g", "mass_energy")), ("to_value(spectral)", lambda a, b: abs(a.q).to_value("angstrom", "spectral"))]
    if u in ("g",):
        calls += [("to(mass_energy)", lambda a, b: a.q.to("erg", "mass_energy")), ("to_equivalent(schwarzschild)", lambda a, b: abs(a.q).to_equivalent("cm", "schwarzschild")),
                  ("to_value(compton)", lambda a, b: abs(a.q).to_value("cm", "compton"))]
    if u in ("cm", "m", "km"):
        calls += [("to(spectral)", lambda a, b: abs(a.q).to("Hz", "spectral")), ("to_equivalent(spectral)", lambda a, b: abs(a.q).to_equivalent("erg", "spectral")),
                  ("to_equivalent(schwarzschild)", lambda a, b: abs(a.q).to_equivalent("g", "schwarzschild"))]
    return calls


_GUARDS = {}


def _guard_unit(ustr):
    """a Unit of a *second* registry, created once; what is recorded about it must survive every call it is passed to"""
    from unyt import Unit
    from unyt.unit_registry import UnitRegistry

    if "reg" not in _GUARDS:
        _GUARDS["reg"] = UnitRegistry()
        _GUARDS["units"] = {}
    if ustr not in _GUARDS["units"]:
        g = Unit(ustr, registry=_GUARDS["reg"])
        _GUARDS["units"][ustr] = (g, unit_facts(g))
    return _GUARDS["units"][ustr][0]


def _guards_changed():
    for ustr, (g, facts) in _GUARDS.get("units", {}).items():
        if g.registry is not _GUARDS["reg"]:
            return ustr, "registry rebound"
        if unit_facts(g) != facts:
            return ustr, "facts changed"
    return None


def run_copying(c, part, out, which):
    calls = copying_calls(c["unit"])
    for k in which:
        name, fn = calls[k % len(calls)]
        if c["dtype"] == "int8" and False:
            continue
        a = Operand(c["vals"], c["unit"], c["dtype"])
        b = Operand(c["vals2"], c["unit"], c["dtype"])
        part.ev()
        res = None
        try:
            res = fn(a, b)
            status = "returned"
        except Exception:
            status = "raised"
        part.nt((name, c["unit"], status))
        bad = False
        for pos, op in (("first", a), ("second", b)):
            diffs = op.changed()
            if diffs:
                out.append((f"C18:copying-call-mutated-input:{name}", {"unit": c["unit"], "dtype": c["dtype"], "operand": pos, "status": status, "diff": diffs}))
                bad = True
                break
        g = _guards_changed()
        if g:
            out.append((f"C18:copying-call-mutated-input:{name}:unit-object-argument", {"unit": c["unit"], "argument": g[0], "what": g[1]}))
            _GUARDS.clear()
            bad = True
        # "returns a new object": what the caller then does to the result is none of the input's business
        if not bad and isinstance(res, np.ndarray) and res.size and res.flags.writeable:
            try:
                np.asarray(res)[...] = 0
            except Exception:
                continue
            for pos, op in (("first", a), ("second", b)):
                diffs = op.changed()
                if diffs:
                    out.append((f"C18:result-shares-memory-with-input:{name}", {"unit": c["unit"], "dtype": c["dtype"], "operand": pos, "diff": diffs}))
                    break


# -------------------------------------------------------------------- successful in-place twins
def run_twins(c, part, out):
    from unyt import unyt_quantity

    u = c["unit"]
    if c["dtype"] == "int8":
        return
    other = {"km": "m", "m": "km", "cm": "inch", "g": "kg", "mile/hr": "m/s", "N*m": "erg", "kg*m**2/s**2": "eV", "degC": "degF", "K": "R", "keV": "J"}.get(u)
    twins = []
    if other:
        twins += [("convert_to_units", lambda t: t.q.convert_to_units(other), lambda t: t.q.to(other))]
    twins += [("convert_to_base", lambda t: t.q.convert_to_base(), lambda t: t.q.in_base()), ("convert_to_cgs", lambda t: t.q.convert_to_cgs(), lambda t: t.q.in_cgs()),
              ("convert_to_mks", lambda t: t.q.convert_to_mks(), lambda t: t.q.in_mks())]
    if u == "K":
        twins += [("convert_to_equivalent(thermal)", lambda t: t.q.convert_to_equivalent("eV", "thermal"), lambda t: t.q.to_equivalent("eV", "thermal")),
                  ("convert_to_units(thermal)", lambda t: t.q.convert_to_units("erg", equivalence="thermal"), lambda t: t.q.to("erg", "thermal"))]
    if u == "keV":
        twins += [("convert_to_equivalent(mass_energy)", lambda t: t.q.convert_to_equivalent("g", "mass_energy"), lambda t: t.q.to_equivalent("g", "mass_energy"))]
    for name, ip, cp in twins:
        t1 = Operand(c["vals"], u, c["dtype"], contiguous=True)
        t2 = Operand(c["vals"], u, c["dtype"], contiguous=True)
        bystander = Operand(c["vals2"], u, c["dtype"])
        part.ev()
        try:
            want = cp(t2)
        except Exception:
            continue
        try:
            ip(t1)
        except Exception as e:
            out.append((f"C18:inplace-raises-where-copy-succeeds:{name}", {"unit": u, "dtype": c["dtype"], "error": f"{type(e).__name__}: {e}"[:160]}))
            continue
        part.nt((name, u, c["dtype"], "twin"))
        got = t1.q
        if got.units != want.units or not np.array_equal(np.asarray(got).astype(complex), np.asarray(want).astype(complex), equal_nan=True):
            a_, b_ = np.asarray(got).astype(complex), np.asarray(want).astype(complex)
            eps = 4 * max(float(np.finfo(np.asarray(x_).dtype if np.asarray(x_).dtype.kind in "fc" else float).eps) for x_ in (want, got))
            if got.units != want.units or a_.shape != b_.shape or not np.all(np.abs(a_ - b_) <= eps * (np.abs(b_) + 300.0)):
                out.append((f"C18:inplace-differs-from-copy:{name}", {"unit": u, "dtype": c["dtype"], "inplace": repr(got)[:120], "copy": repr(want)[:120]}))
        # only the target changes: sentinels around it and the bystander stay
        if t1.base is not None and t1.snap()["dtype"] == t1.snap0["dtype"]:
            if not (t1.base[0] == (SENT if t1.base.dtype.kind == "f" else 7) and t1.base[-1] == (SENT if t1.base.dtype.kind == "f" else 7)):
                out.append((f"C18:inplace-wrote-outside-target:{name}", {"unit": u, "dtype": c["dtype"]}))
        if bystander.changed():
            out.append((f"C18:inplace-changed-bystander:{name}", {"unit": u}))
    # augmented assignment and out= vs the copying operator
    if R.dimvec_of(__import__("unyt").Unit(u).dimensions) is not None and not __import__("unyt").Unit(u).base_offset and c["dtype"].startswith("float"):
        for name, ip, cp in (("+=", lambda x, y: x.__iadd__(y), lambda x, y: x + y), ("-=", lambda x, y: x.__isub__(y), lambda x, y: x - y),
                             ("*=", lambda x, y: x.__imul__(y), lambda x, y: x * y), ("/=", lambda x, y: x.__itruediv__(y), lambda x, y: x / y),
                             ("np.add out=", lambda x, y: np.add(x, y, out=x), lambda x, y: np.add(x, y)),
                             ("np.multiply out=", lambda x, y: np.multiply(x, y, out=x), lambda x, y: np.multiply(x, y))):
            t1 = Operand(c["vals"], u, c["dtype"], contiguous=True)
            t2 = Operand(c["vals"], u, c["dtype"], contiguous=True)
            y = Operand(c["vals2"], u, c["dtype"])
            part.ev()
            try:
                want = cp(t2.q, y.q)
                ip(t1.q, y.q)
            except Exception:
                continue
            part.nt((name, u, "aug"))
            a_, b_ = np.asarray(t1.q).astype(complex), np.asarray(want).astype(complex)
            eps = 4 * max(float(np.finfo(np.asarray(x_).dtype if np.asarray(x_).dtype.kind in "fc" else float).eps) for x_ in (want, t1.q))
            with np.errstate(all="ignore"):
                close = a_.shape == b_.shape and bool(np.all((np.abs(a_ - b_) <= eps * np.abs(b_)) | (a_ == b_) | (np.isnan(a_) & np.isnan(b_))))
            if t1.q.units != want.units or not close:
                out.append((f"C18:inplace-differs-from-copy:{name}", {"unit": u, "dtype": c["dtype"], "inplace": repr(t1.q)[:120], "copy": repr(want)[:120]}))
            if y.changed():
                out.append((f"C18:inplace-changed-other-operand:{name}", {"unit": u, "diff": y.changed()}))
            if t2.changed():
                out.append((f"C18:copying-call-mutated-input:operator {name[:1]}", {"unit": u, "diff": t2.changed()}))


def run_out_views(c, part, out):
    """out= targets that are fresh view objects of an operand's memory (np.add(x, y, out=x[:]), shifted windows, columns), with the
    other operand written in another commensurable unit: exactly the numbers of the copying call, the other operand untouched;
    a refused call of the same shape leaves the memory as it was"""
    import unyt
    from unyt import unyt_array

    u = c["unit"]
    U = unyt.Unit(u)
    if R.dimvec_of(U.dimensions) is None or U.base_offset or not c["dtype"].startswith("float") or np.ndim(c["vals"]) != 1 or len(c["vals"]) < 3:
        return
    try:
        other_unit = U * unyt.Unit("km") / unyt.Unit("m")  # same dimension, 1000 times the size
        float(other_unit.base_value)
    except Exception:
        return
    forms = (
        ("np.add(x, y, out=x[:])", lambda x, y: np.add(x, y, out=x[:]), lambda x, y: np.add(x, y), lambda x: x),
        ("np.subtract(x, y, out=x[:])", lambda x, y: np.subtract(x, y, out=x[:]), lambda x, y: np.subtract(x, y), lambda x: x),
        ("np.maximum(y, x, out=x[:])", lambda x, y: np.maximum(y, x, out=x[:]), lambda x, y: np.maximum(y, x), lambda x: x),
        ("np.add(x, y, out=x.view())", lambda x, y: np.add(x, y, out=x.view(type(x))), lambda x, y: np.add(x, y), lambda x: x),
        ("np.add(x[1:], y[1:], out=x[:-1])", lambda x, y: np.add(x[1:], y[1:], out=x[:-1]), lambda x, y: np.add(x[1:], y[1:]), lambda x: x[:-1]),
        ("np.subtract(x[:-1], y[:-1], out=x[1:])", lambda x, y: np.subtract(x[:-1], y[:-1], out=x[1:]), lambda x, y: np.subtract(x[:-1], y[:-1]), lambda x: x[1:]),
        ("np.add(M[:,0], y, out=M[:,0])", None, None, None),
    )
    for yu, ytag in ((u, "same unit"), (other_unit, "other unit")):
        for name, ip, cp, where in forms:
            part.ev()
            if ip is None:
                # a column of a 2-d array, named twice (two distinct view objects of the same memory)
                M1 = unyt_array(np.tile(np.asarray(c["vals"], dtype=c["dtype"])[:, None], (1, 2)), u)
                M2 = M1.copy()
                y = Operand(c["vals2"], yu, c["dtype"])
                try:
                    want = np.add(M2[:, 0], y.q)
                    np.add(M1[:, 0], y.q, out=M1[:, 0])
                except Exception:
                    continue
                got, untouched_ok = M1[:, 0], np.array_equal(np.asarray(M1[:, 1]), np.asarray(M2[:, 1]), equal_nan=True)
            else:
                t1 = Operand(c["vals"], u, c["dtype"], contiguous=True)
                t2 = Operand(c["vals"], u, c["dtype"], contiguous=True)
                y = Operand(c["vals2"], yu, c["dtype"])
                try:
                    want = cp(t2.q, y.q)
                    ret = ip(t1.q, y.q)
                except Exception:
                    continue
                # the returned object is the out= view and carries the result's unit; the operand object itself (another Python
                # object on the same memory) is only comparable when the result comes back in its unit (x left-most)
                got = where(t1.q) if name.split("(")[1].startswith("x") else ret
                untouched_ok = t1.base[0] == SENT and t1.base[-1] == SENT
            part.nt((name, ytag, "out-view"))
            a_, b_ = np.asarray(got).astype(complex), np.asarray(want.to(got.units) if want.units != got.units else want).astype(complex)
            eps = 8 * float(np.finfo(np.dtype(c["dtype"])).eps)
            with np.errstate(all="ignore"):
                close = a_.shape == b_.shape and bool(np.all((np.abs(a_ - b_) <= eps * np.maximum(np.abs(b_), np.abs(a_))) | (a_ == b_) | (np.isnan(a_) & np.isnan(b_))))
            if not close:
                out.append((f"C18:inplace-differs-from-copy:{name}:{ytag}", {"unit": u, "other": str(yu), "dtype": c["dtype"], "inplace": repr(got)[:120], "copy": repr(want)[:120]}))
            if not untouched_ok:
                out.append((f"C18:inplace-wrote-outside-target:{name}:{ytag}", {"unit": u, "dtype": c["dtype"]}))
            if y.changed():
                out.append((f"C18:inplace-changed-other-operand:{name}:{ytag}", {"unit": u, "diff": y.changed()}))
    # refused calls with the same target shapes: a Celsius reading minus a Fahrenheit difference is refused after unit conversion
    # has been set up; a different dimension is refused before
    for name, mk in (("np.subtract(degC, delta_degF, out=view of target)", lambda t: np.subtract(unyt_array(np.ones(t.q.shape), "degC"), unyt_array(np.ones(t.q.shape), "delta_degF"), out=t.q[:])),
                     ("np.add(x, other dimension, out=x[:])", lambda t: np.add(t.q, unyt_array(np.ones(t.q.shape), "s" if R.dimvec_of(U.dimensions) != R.dimvec_of(unyt.Unit("s").dimensions) else "m"), out=t.q[:])),
                     ("np.add(degC, degF, out=view of target)", lambda t: np.add(unyt_array(np.ones(t.q.shape), "degC"), unyt_array(np.ones(t.q.shape), "degF"), out=t.q[:]))):
        t = Operand(c["vals"], u, c["dtype"], contiguous=True)
        part.ev()
        try:
            mk(t)
        except Exception:
            part.nt((name, "refused-out-view"))
            d = t.changed(numbers_and_units_only=True)
            if d:
                out.append((f"C18:failed-call-mutated-target:{name}", {"unit": u, "dtype": c["dtype"], "diff": d}))


OTHER = {"km": "m", "m": "km", "cm": "inch", "g": "kg", "mile/hr": "m/s", "N*m": "erg", "kg*m**2/s**2": "eV", "degC": "degF", "K": "R", "keV": "J",
         "km/m": "percent", "J/erg": "percent", "m*s/s": "cm", "Hz*s*km": "m"}


def run_mixed(c, part, out, which):
    """both operands tracked, the second written in another commensurable unit (so that the library has to rescale one of them
    somewhere): (N) copying binary forms leave both intact and hand back independent memory; (S) in-place forms change only their
    target and give the numbers of the copying form; item assignment / fill / put / copyto store exactly what value.to(target unit)
    gives and leave the assigned value intact"""
    import unyt
    from unyt import unyt_array

    u, dt = c["unit"], c["dtype"]
    ou = OTHER[u]
    dm = getattr(__import__("builtins"), "divmod")
    copying = [
        ("a+b", lambda a, b: a + b), ("a-b", lambda a, b: a - b), ("b-a", lambda a, b: b - a), ("a*b", lambda a, b: a * b), ("a/b", lambda a, b: a / b), ("b/a", lambda a, b: b / a),
        ("a//b", lambda a, b: a // b), ("b//a", lambda a, b: b // a), ("a%b", lambda a, b: a % b), ("b%a", lambda a, b: b % a), ("divmod(a,b)", lambda a, b: dm(a, b)),
        ("np.floor_divide(a,b)", lambda a, b: np.floor_divide(a, b)), ("np.remainder(a,b)", lambda a, b: np.remainder(a, b)), ("np.fmod(a,b)", lambda a, b: np.fmod(a, b)),
        ("np.true_divide(a,b)", lambda a, b: np.true_divide(a, b)), ("np.maximum(a,b)", lambda a, b: np.maximum(a, b)), ("np.fmin(b,a)", lambda a, b: np.fmin(b, a)),
        ("np.hypot(a,b)", lambda a, b: np.hypot(a, b)), ("np.arctan2(a,b)", lambda a, b: np.arctan2(a, b)), ("np.copysign(a,b)", lambda a, b: np.copysign(a, b)),
        ("a<b", lambda a, b: a < b), ("b>=a", lambda a, b: b >= a), ("a==b", lambda a, b: a == b), ("np.not_equal(a,b)", lambda a, b: np.not_equal(a, b)),
        ("np.isclose(a,b)", lambda a, b: np.isclose(a, b)), ("np.allclose(b,a)", lambda a, b: np.allclose(b, a)), ("np.array_equal(a,b)", lambda a, b: np.array_equal(a, b)),
        ("allclose_units(a,b)", lambda a, b: unyt.array.allclose_units(a, b)), ("np.concatenate([a,b])", lambda a, b: np.concatenate([np.atleast_1d(a), np.atleast_1d(b)])),
        ("np.stack([b,a])", lambda a, b: np.stack([b, a])), ("np.where(m,a,b)", lambda a, b: np.where(np.asarray(a) > 0, a, b)), ("np.clip(a,b.min(),b.max())", lambda a, b: np.clip(a, b.min(), b.max())),
        ("np.append(a,b)", lambda a, b: np.append(a, b)), ("np.union1d(a,b)", lambda a, b: np.union1d(a, b)), ("np.isin(a,b)", lambda a, b: np.isin(a, b)),
        ("np.searchsorted(sort(a),b)", lambda a, b: np.searchsorted(np.sort(np.atleast_1d(a)), b)), ("np.interp(a,sort(b),b)", lambda a, b: np.interp(np.atleast_1d(a), np.sort(np.atleast_1d(b)), np.atleast_1d(b))),
        ("np.dot(a,b)", lambda a, b: np.dot(np.atleast_1d(a), np.atleast_1d(b))), ("a@b", lambda a, b: np.atleast_1d(a) @ np.atleast_1d(b)), ("np.outer(a,b)", lambda a, b: np.outer(a, b)),
        ("np.add.outer(a,b)", lambda a, b: np.add.outer(a, b)), ("np.subtract(a,b)", lambda a, b: np.subtract(a, b)), ("np.linspace(a.min(),b.max(),3)", lambda a, b: np.linspace(a.min(), b.max(), 3)),
        ("np.trapezoid(a,b)", lambda a, b: np.trapezoid(np.atleast_1d(a), np.atleast_1d(b))), ("unyt_array([a0,b0])", lambda a, b: unyt_array([np.atleast_1d(a)[0], np.atleast_1d(b)[0]])),
        ("np.histogram(a,bins=sort(b))", lambda a, b: np.histogram(np.atleast_1d(a), bins=np.sort(np.atleast_1d(b)))), ("np.diff(a,prepend=b0)", lambda a, b: np.diff(np.atleast_1d(a), prepend=np.atleast_1d(b)[0])),
        ("np.pad(a,1,constant_values=b0)", lambda a, b: np.pad(np.atleast_1d(a), 1, constant_values=np.atleast_1d(b)[0])), ("np.ediff1d(a,to_end=b0)", lambda a, b: np.ediff1d(np.atleast_1d(a), to_end=np.atleast_1d(b)[0])),
    ]
    for k in which:
        name, fn = copying[k % len(copying)]
        a, b = Operand(c["vals"], u, dt), Operand(c["vals2"], ou, dt)
        part.ev()
        res = None
        try:
            res = fn(a.q, b.q)
            status = "returned"
        except Exception:
            status = "raised"
        part.nt(("mixed", name, u, status))
        bad = False
        for pos, op in (("first", a), ("second (other unit)", b)):
            d = op.changed()
            if d:
                out.append((f"C18:copying-call-mutated-input:mixed-units:{name}", {"unit": u, "other": ou, "dtype": dt, "operand": pos, "status": status, "diff": d}))
                bad = True
                break
        for r in (res if isinstance(res, tuple) else (res,)):
            if not bad and isinstance(r, np.ndarray) and r.size and r.flags.writeable:
                try:
                    np.asarray(r)[...] = 0
                except Exception:
                    continue
                for pos, op in (("first", a), ("second (other unit)", b)):
                    d = op.changed()
                    if d:
                        out.append((f"C18:result-shares-memory-with-input:mixed-units:{name}", {"unit": u, "other": ou, "dtype": dt, "operand": pos, "diff": d}))
                        bad = True
                        break
    if not dt.startswith("float"):
        return
    U = unyt.Unit(u)

    def cmp(name, got, want, y, t1):
        a_ = np.asarray(got).astype(complex)
        try:
            b_ = np.asarray(want.to(got.units) if hasattr(want, "units") and want.units != got.units else want).astype(complex)
        except Exception:
            b_ = None
        eps = 8 * float(np.finfo(np.dtype(dt)).eps)
        with np.errstate(all="ignore"):
            close = b_ is not None and a_.shape == b_.shape and bool(np.all((np.abs(a_ - b_) <= eps * (np.maximum(np.abs(b_), np.abs(a_)) + (300.0 if U.base_offset else 0.0))) | (a_ == b_) | (np.isnan(a_) & np.isnan(b_))))
        if not close:
            out.append((f"C18:inplace-differs-from-copy:mixed-units:{name}", {"unit": u, "other": ou, "dtype": dt, "inplace": repr(got)[:120], "copy": repr(want)[:120]}))
        if t1.base is not None and not (t1.base[0] == SENT and t1.base[-1] == SENT):
            out.append((f"C18:inplace-wrote-outside-target:mixed-units:{name}", {"unit": u, "dtype": dt}))
        d = y.changed()
        if d:
            out.append((f"C18:inplace-changed-other-operand:mixed-units:{name}", {"unit": u, "other": ou, "dtype": dt, "diff": d}))

    inplace = [
        ("+=", lambda x, y: x.__iadd__(y), lambda x, y: x + y), ("-=", lambda x, y: x.__isub__(y), lambda x, y: x - y), ("*=", lambda x, y: x.__imul__(y), lambda x, y: x * y),
        ("/=", lambda x, y: x.__itruediv__(y), lambda x, y: x / y), ("//=", lambda x, y: x.__ifloordiv__(y), lambda x, y: x // y), ("%=", lambda x, y: x.__imod__(y), lambda x, y: x % y),
        ("np.add(x,y,out=x)", lambda x, y: np.add(x, y, out=x), lambda x, y: np.add(x, y)), ("np.subtract(x,y,out=x)", lambda x, y: np.subtract(x, y, out=x), lambda x, y: np.subtract(x, y)),
        ("np.floor_divide(x,y,out=x)", lambda x, y: np.floor_divide(x, y, out=x), lambda x, y: np.floor_divide(x, y)), ("np.remainder(x,y,out=x)", lambda x, y: np.remainder(x, y, out=x), lambda x, y: np.remainder(x, y)),
        ("np.maximum(x,y,out=x)", lambda x, y: np.maximum(x, y, out=x), lambda x, y: np.maximum(x, y)), ("np.hypot(x,y,out=x)", lambda x, y: np.hypot(x, y, out=x), lambda x, y: np.hypot(x, y)),
        ("np.divide(x,y,out=x)", lambda x, y: np.divide(x, y, out=x), lambda x, y: np.divide(x, y)), ("np.fmod(x,y,out=x)", lambda x, y: np.fmod(x, y, out=x), lambda x, y: np.fmod(x, y)),
    ]
    for name, ip, cp in inplace:
        t1, t2, y = Operand(c["vals"], u, dt, contiguous=True), Operand(c["vals"], u, dt, contiguous=True), Operand(c["vals2"], ou, dt)
        part.ev()
        try:
            want = cp(t2.q, y.q)
        except Exception:
            continue
        try:
            ret = ip(t1.q, y.q)
        except Exception as e:
            d = t1.changed(numbers_and_units_only=True)
            if d:
                out.append((f"C18:failed-call-mutated-target:mixed-units:{name}", {"unit": u, "other": ou, "dtype": dt, "error": type(e).__name__, "diff": d}))
            continue
        part.nt(("mixed-inplace", name, u))
        cmp(name, ret if ret is not None else t1.q, want, y, t1)
        if t2.changed():
            out.append((f"C18:copying-call-mutated-input:mixed-units:operator {name}", {"unit": u, "diff": t2.changed()}))
    # stores: the numbers that arrive in the target are those of value.to(target unit)
    n = len(c["vals"]) if np.ndim(c["vals"]) else 0
    if not n:
        return
    stores = [
        ("x[0]=y0", lambda x, y: x.__setitem__(0, y[0]), lambda x, y: [0]), ("x[:]=y", lambda x, y: x.__setitem__(slice(None), y), lambda x, y: list(range(n))),
        ("x[mask]=y", lambda x, y: x.__setitem__(np.ones(n, bool), y), lambda x, y: list(range(n))), ("x[...]=y0", lambda x, y: x.__setitem__(Ellipsis, y[0]), lambda x, y: [0] * n),
        ("x[[0,-1]]=y0", lambda x, y: x.__setitem__([0, -1], y[0]), lambda x, y: None), ("x.fill(y0)", lambda x, y: x.fill(y[0]), lambda x, y: [0] * n),
        ("np.put(x,[0],y0)", lambda x, y: np.put(x, [0], y[0]), lambda x, y: None), ("np.copyto(x,y)", lambda x, y: np.copyto(x, y), lambda x, y: list(range(n))),
        ("np.putmask(x,m,y)", lambda x, y: np.putmask(x, np.ones(n, bool), y), lambda x, y: list(range(n))), ("np.place(x,m,y)", lambda x, y: np.place(x, np.ones(n, bool), y), lambda x, y: list(range(n))),
        ("x[::-1]=y", lambda x, y: x.__setitem__(slice(None, None, -1), y), lambda x, y: list(range(n))[::-1]), ("x[0:1]=list of quantities", lambda x, y: x.__setitem__(slice(0, 1), [y[0]]), lambda x, y: None),
    ]
    for name, st_, _ in stores:
        t1, t2, y = Operand(c["vals"], u, dt, contiguous=True), Operand(c["vals"], u, dt, contiguous=True), Operand(c["vals2"], ou, dt)
        part.ev()
        try:
            conv = np.asarray(y.q.to(t2.q.units))
            st_(t2.q.v if False else t2.q, unyt_array(conv, t2.q.units))  # the same store with the value already converted (plain NumPy semantics)
        except Exception:
            continue
        try:
            st_(t1.q, y.q)
        except Exception as e:
            d = t1.changed(numbers_and_units_only=True)
            if d:
                out.append((f"C18:failed-call-mutated-target:mixed-units:{name}", {"unit": u, "other": ou, "dtype": dt, "error": type(e).__name__, "diff": d}))
            continue
        part.nt(("mixed-store", name, u))
        cmp(name, t1.q, t2.q, y, t1)


def judge(c, part):
    out = []
    seq = c["seq"]
    run_out_views(c, part, out)
    run_faults(c, part, out, seq[:4])
    run_copying(c, part, out, seq[4:])
    run_twins(c, part, out)
    run_mixed(c, part, out, seq[1:6])
    run_faults(c, part, out, seq[2:5])
    run_copying(c, part, out, seq[:3])
    if len(part.samples) < 2:
        part.sample({"unit": c["unit"], "dtype": c["dtype"], "values": c["vals"], "fault calls": [fault_calls()[k % len(fault_calls())][0] for k in seq[:4]]})
    return out


def part_random(payload):
    known = core.Known("C18")
    part = core.Part()
    core.hyp_explore(part, known, case(), judge, payload["n"], payload["seed"], label="C18:cases")
    return part


def part_catalog(payload):
    """every catalogue template without in-place/out= effect must leave its (view) operands and their buffers intact"""
    from unyt import unyt_array, unyt_quantity

    known = core.Known("C18")
    part = core.Part()
    cands = [k / 8 for k in range(-160, 161) if k != 0]
    vals = cands[payload["offset"]:] + cands[:payload["offset"]]
    data = C.make_data(lambda n: vals[:n])
    for fn, ex, fl in C.all_templates():
        if "I" in fl or fn.startswith("out=") or "S" in fl:
            continue
        ops = []

        def wrap(x, role, shared="B" in fl):
            u = {"A": payload["unitA"], "A2": payload["unitA"], "B": payload["unitA"] if shared else "s", "G": "rad", "I": "1/m"}[role]
            o = Operand(x, u, "float64")
            ops.append(o)
            return o.q

        part.ev()
        try:
            C.evaluate(ex, data, wrap)
            status = "returned"
        except Exception:
            status = "raised"
        part.nt((fn, ex, status))
        for k, o in enumerate(ops):
            d = o.changed()
            if d:
                core.classify(known, part, f"C18:copying-call-mutated-input:catalogue:{fn}", {"expr": ex, "operand#": k, "status": status, "diff": d, "unitA": payload["unitA"]})
                break
    return part


def run(ctx):
    ctx.level = "fault_enumeration"
    nf = len([f for f in fault_calls() if f[2] is not None])
    ctx.rule = (
        f"fault enumeration: {nf} in-place call sites (convert_to_*, augmented assignment, out=, item assignment, in-place NumPy functions) x fault "
        "kinds (dimension mismatch, unknown/malformed unit, invalid equivalence, bogus unit system, dimensional/non-uniform exponent, offset scale, "
        "8-bit buffer) x 14 operand units (incl. unsimplified compounds km/m, J/erg) x 6 dtypes x Hypothesis values, interleaved with ~75 copying "
        "calls on strided-view operands (bytes of the surrounding buffer, dtype, shape, unit expr/scale/offset/dimension/str/repr compared before/after), "
        "in-place/copy twin agreement, and the whole NumPy catalogue (non in-place templates) for non-mutation. non-trivial = distinct (call site, fault "
        "kind, dtype) that raised + distinct (copying call, unit, outcome) + distinct twins + distinct catalogue templates"
    )
    ctx.assumptions = [
        "a failed in-place call may retype an integer target to float as long as numbers and unit are intact (the statement promises numbers and unit); counted as an observation",
        "whether a faulty call must be refused at all is C01/C08's subject; here only the state after a raise is judged",
        "np.copyto(dst, src_of_other_dimension) is documented to relabel dst and is not treated as a fault",
    ]
    n = ctx.pick(3200, 64000)
    ctx.merge(core.pmap(MOD, "part_random", [{"n": n // 16, "seed": ctx.seed * 1000 + i} for i in range(16)]))
    units = ["m", "km/m", "J/erg", "Hz*s*km", "degC"]
    ctx.merge(core.pmap(MOD, "part_catalog", [{"offset": (ctx.seed * 11 + 17 * k) % 200, "unitA": units[k % len(units)]} for k in range(ctx.pick(5, 20))]))


def replay(ctx, data):
    d = data["detail"]
    if isinstance(d, dict) and "case" in d:
        for key, det in judge(d["case"], ctx):
            ctx.violation(key, det)
    else:
        ctx.merge(part_catalog({"offset": 0, "unitA": d.get("unitA", "m")}))
