"""C08 -- offset temperature scales follow point/difference semantics or refuse.

Oracle: affine-space model in kelvin written from the statement.  Every temperature unit is
(kind, s, z) with  T[K] = s*x + z ; points = units with z != 0 (degC, degF and SI-prefixed
degC), differences = K, R, delta_degC, delta_degF and their prefixed forms (z = 0).

* conversions: every ordered pair x every route must be the exact affine map;
* additive forms (operator / ufunc / in-place / out=): if a value comes back it must be the
  affine value in the scale of the unit the result is *labelled* with, and the label must be
  of the right kind; two different offset scales must raise;
* diff / ediff1d / ptp: point - point  -> difference with the right value;
* multiply / divide / power / root / square of an offset quantity must raise;
* comparisons: raise or the kelvin truth.
"""

import math
import operator
from fractions import Fraction as Fr

import numpy as np
from hypothesis import strategies as st

from vf import core
from vf.oracle import table as T

MOD = "vf.checks.c08"
Z_C = Fr(27315, 100)
S_F = Fr(5, 9)
Z_F = Fr(45967, 100) * S_F
BASE = {
    "K": (Fr(1), Fr(0)), "R": (S_F, Fr(0)), "degC": (Fr(1), Z_C), "degF": (S_F, Z_F),
    "delta_degC": (Fr(1), Fr(0)), "delta_degF": (S_F, Fr(0)),
}
ASCII_PREFIXES = [p for p in T.PREFIXES if p.isascii()]
QUICK_PREFIXES = ["m", "k", "u", "M", "c", "da"]


def unit_table(prefixes):
    """name -> (s, z) ; prefixable-ness comes from the independent table, not from unyt"""
    out = dict(BASE)
    for b in BASE:
        if T.ROWS[b]["prefixable"]:
            for p in prefixes:
                f = Fr(10) ** int(round(float(T.mp.log10(T.PREFIXES[p][0]))))
                out[p + b] = (BASE[b][0] * f, BASE[b][1])
    return out


def kind(u, tab):
    return "P" if tab[u][1] != 0 else "D"


def _eps_tol(*mags):
    eps = 2.2e-16 if _DT[0] != "float32" else 1.2e-7
    return 32 * eps * sum(abs(float(m)) for m in mags) + 1e-300


# ------------------------------------------------------------------ the actual judging
class Env:
    def __init__(self, prefixes):
        from unyt import Unit

        self.tab = unit_table(prefixes)
        self.label = {}
        for n in self.tab:
            self.label[str(Unit(n).expr)] = n

    def facts_of_label(self, units):
        n = self.label.get(str(units.expr))
        if n is None:
            return None, None
        return n, self.tab[n]


_DT = ["float64"]


def _mk(name, vals, scalar):
    from unyt import unyt_array, unyt_quantity

    arr = np.array(vals, dtype=_DT[0])
    if scalar:
        return unyt_quantity(arr[0], name)
    return unyt_array(arr, name)


def _vals(q):
    return [float(v) for v in np.atleast_1d(np.asarray(q))]


def _call(fn):
    try:
        return "ok", fn()
    except Exception as e:
        return "err", e


def _lib_exc(e):
    """the refusal must be a deliberate one (unyt exception), anything else is noted"""
    from unyt.exceptions import UnytError

    return isinstance(e, (UnytError, TypeError, ValueError, RuntimeError))


FORMS = ["operator", "ufunc", "inplace", "out"]


def _additive(op, form, qa, qb, a_name):
    from unyt import unyt_array

    if form == "operator":
        return operator.add(qa, qb) if op == "+" else operator.sub(qa, qb)
    uf = np.add if op == "+" else np.subtract
    if form == "ufunc":
        return uf(qa, qb)
    if form == "inplace":
        t = unyt_array(np.array(np.atleast_1d(np.asarray(qa))), a_name)
        if op == "+":
            t += qb
        else:
            t -= qb
        return t
    buf = unyt_array(np.zeros(np.atleast_1d(np.asarray(qa)).shape), "K")
    r = uf(np.atleast_1d(qa) if np.ndim(qa) else qa.reshape(1), qb, out=buf)
    if str(r.units.expr) != str(buf.units.expr) or not np.array_equal(np.asarray(r), np.asarray(buf)):
        raise AssertionError("out= buffer and returned value disagree")
    return buf


def judge_pair(env, a, b, xs, ys, scalar, part, out, quick_forms=False, dtype="float64"):
    """all clauses for one ordered pair and one set of readings"""
    _DT[0] = dtype
    if dtype == "int64":
        xs, ys = [float(round(v)) for v in xs], [float(round(v)) for v in ys]
    elif dtype == "float32":
        # keep away from float32 subnormals: a reading below 1e-3 in magnitude is taken as 0
        xs, ys = [float(np.float32(v)) if abs(v) >= 1e-3 else 0.0 for v in xs], [float(np.float32(v)) if abs(v) >= 1e-3 else 0.0 for v in ys]
    else:
        # readings are temperatures, not probes of the float format: anything below 1e-3 in magnitude (Hypothesis shrinks
        # towards 5e-324) is taken as 0 so that under/overflow of the format itself is never mistaken for a wrong value
        xs, ys = [v if abs(v) >= 1e-3 else 0.0 for v in xs], [v if abs(v) >= 1e-3 else 0.0 for v in ys]
    if dtype == "float32":
        ra = float(env.tab[a][0] / env.tab[b][0])
        if not (1e-24 < abs(ra) < 1e24):
            part.count("float32 pair whose scale ratio leaves the float32 range: not judged in single precision")
            _DT[0] = "float64"
            return None
    try:
        return _judge_pair(env, a, b, xs, ys, scalar, part, out, quick_forms)
    finally:
        _DT[0] = "float64"


def _judge_pair(env, a, b, xs, ys, scalar, part, out, quick_forms=False):
    tab = env.tab
    (sa, za), (sb, zb) = tab[a], tab[b]
    ka, kb = kind(a, tab), kind(b, tab)
    qa0, qb0 = _mk(a, xs, scalar), _mk(b, ys, scalar)
    fx, fy = [Fr(v) for v in _vals(qa0)], [Fr(v) for v in _vals(qb0)]
    nontrivial = a != b and (sa != sb or (ka != kb))
    if nontrivial:
        part.nt(("pair", a, b))
    part.count(f"pair-kind {ka}{kb}")

    # ---- conversions a -> b : exact affine map on every route
    want = [(sa * x + za - zb) / sb for x in fx]
    tol = [_eps_tol(sa * x / sb, za / sb, zb / sb) for x in fx]
    routes = {
        "to": lambda q: q.to(b),
        "in_units": lambda q: q.in_units(b),
        "to_value": lambda q: q.to_value(b),
        "convert_to_units": lambda q: (q.convert_to_units(b), q)[1],
    }
    for rname, rf in routes.items():
        part.ev()
        st_, r = _call(lambda: rf(_mk(a, xs, scalar)))
        if st_ == "err":
            out.append((f"C08:conversion-raises:{rname}", {"from": a, "to": b, "error": repr(r)[:200]}))
            continue
        got = _vals(r)
        bad = [i for i in range(len(got)) if not abs(got[i] - float(want[i])) <= tol[i]]
        if bad:
            i = bad[0]
            out.append((f"C08:conversion-value:{_ckey(a, b, tab)}", {"route": rname, "from": a, "to": b, "x": float(fx[i]), "got": got[i], "want": float(want[i])}))
        if rname != "to_value":
            n, _ = env.facts_of_label(r.units)
            if n != b:
                out.append((f"C08:conversion-label:{rname}", {"from": a, "to": b, "label": str(r.units)}))

    # ---- additive forms
    for op in "+-":
        for form in (FORMS[:2] if quick_forms else FORMS):
            part.ev()
            st_, r = _call(lambda: _additive(op, form, _mk(a, xs, scalar), _mk(b, ys, scalar), a))
            must_raise = ka == "P" and kb == "P" and a != b
            cls = f"{ka}{op}{kb}"
            if st_ == "err":
                if isinstance(r, AssertionError):
                    out.append((f"C08:out-buffer-disagrees:{cls}", {"a": a, "b": b, "form": form}))
                part.count("additive refused")
                continue
            if must_raise:
                out.append((f"C08:no-raise:two-offset-scales:{op}", {"a": a, "b": b, "form": form, "x": xs, "y": ys, "got": repr(r)[:120]}))
                continue
            if cls in ("P+P", "D-P"):
                part.count(f"unjudged {cls} returned")
                continue
            n, f = env.facts_of_label(r.units)
            if n is None:
                out.append((f"C08:unknown-label:{cls}", {"a": a, "b": b, "label": str(r.units), "form": form}))
                continue
            sU, zU = f
            got = _vals(r)
            if cls in ("P+D", "D+P", "P-D"):
                want_kind = "P"
                sign = 1 if op == "+" else -1
                if cls == "D+P":
                    wantv = [(sb * y + zb + sa * x - zU) / sU for x, y in zip(fx, fy)]
                else:
                    wantv = [(sa * x + za + sign * sb * y - zU) / sU for x, y in zip(fx, fy)]
            else:  # D+D, D-D, P-P(same unit)
                want_kind = "D"
                sign = 1 if op == "+" else -1
                wantv = [(sa * x + sign * sb * y) / sU for x, y in zip(fx, fy)]
            tl = [_eps_tol(sa * x / sU, sb * y / sU, za / sU, zb / sU, zU / sU) for x, y in zip(fx, fy)]
            if kind(n, tab) != want_kind:
                out.append((f"C08:label-kind:{cls}", {"a": a, "b": b, "form": form, "label": n, "want": want_kind}))
                continue
            bad = [i for i in range(len(got)) if not abs(got[i] - float(wantv[i])) <= tl[i]]
            if bad:
                i = bad[0]
                sk = "same-scale" if sa == sb else "scale-mismatch"
                out.append((f"C08:wrong-value:{cls}:{sk}", {"a": a, "b": b, "form": form, "x": float(fx[i]), "y": float(fy[i]), "label": n, "got": got[i], "want": float(wantv[i])}))
            else:
                part.count(f"additive judged-ok {cls}")
                if nontrivial:
                    part.nt(("add", cls, a, b, form))

    # ---- comparisons
    for cname, cop in (("<", operator.lt), (">=", operator.ge), ("==", operator.eq)):
        part.ev()
        st_, r = _call(lambda: cop(_mk(a, xs, scalar), _mk(b, ys, scalar)))
        if st_ == "err":
            continue
        if ka != kb:
            part.count("unjudged point-vs-difference comparison returned")
            continue
        ta = [sa * x + za for x in fx]
        tb = [sb * y + zb for y in fy]
        got = [bool(v) for v in np.atleast_1d(np.asarray(r))]
        for i, g in enumerate(got):
            margin = abs(float(ta[i] - tb[i]))
            if margin <= 1e-9 * (abs(float(ta[i])) + abs(float(tb[i])) + float(abs(za)) + float(abs(zb))):
                continue  # too close to call in floating point
            truth = cop(ta[i], tb[i])
            if g != truth:
                out.append((f"C08:comparison-wrong:{ka}{kb}:{'same' if a == b else 'different'}-unit", {"a": a, "b": b, "op": cname, "x": float(fx[i]), "y": float(fy[i]), "got": g}))
                break


def _ckey(a, b, tab):
    pa = "prefixed" if a not in BASE else "plain"
    pb = "prefixed" if b not in BASE else "plain"
    return f"{kind(a, tab)}{pa}->{kind(b, tab)}{pb}"


def judge_single(env, a, xs, part, out):
    """difference helpers and multiplicative refusals for one unit"""
    from unyt import unyt_array, unyt_quantity

    tab = env.tab
    sa, za = tab[a]
    ka = kind(a, tab)
    arr = lambda: unyt_array(np.array(xs, dtype="float64"), a)  # noqa: E731
    fx = [Fr(float(v)) for v in xs]
    # diff / ediff1d / ptp  == point - point or difference - difference
    deltas = {
        "np.diff": (lambda: np.diff(arr()), [fx[i + 1] - fx[i] for i in range(len(fx) - 1)]),
        "np.ediff1d": (lambda: np.ediff1d(arr()), [fx[i + 1] - fx[i] for i in range(len(fx) - 1)]),
        "np.ptp": (lambda: np.ptp(arr()), [max(fx) - min(fx)]),
        "ndarray.ptp-like max-min": (lambda: arr().max() - arr().min(), [max(fx) - min(fx)]),
    }
    if len(fx) >= 2:
        # central differences inside, one-sided at the ends: differences of readings divided by plain numbers
        g = [fx[1] - fx[0]] + [(fx[i + 1] - fx[i - 1]) / 2 for i in range(1, len(fx) - 1)] + [fx[-1] - fx[-2]]
        deltas["np.gradient"] = (lambda: np.gradient(arr()), g)
        deltas["np.gradient(x, 2.0)"] = (lambda: np.gradient(arr(), 2.0), [v / 2 for v in g])
    for nm, (fn, dx) in deltas.items():
        part.ev()
        st_, r = _call(fn)
        if st_ == "err":
            part.count(f"{nm} refused")
            continue
        n, f = env.facts_of_label(r.units)
        if n is None:
            out.append((f"C08:unknown-label:{nm}", {"unit": a, "label": str(r.units)}))
            continue
        if kind(n, tab) != "D":
            out.append((f"C08:label-kind:{nm}", {"unit": a, "label": n, "want": "difference"}))
            continue
        got = _vals(r)
        want = [sa * d / f[0] for d in dx]
        bad = [i for i in range(len(got)) if not abs(got[i] - float(want[i])) <= _eps_tol(sa * max(abs(v) for v in fx) / f[0])]
        if bad:
            i = bad[0]
            out.append((f"C08:wrong-value:{nm}:{ka}{'prefixed' if a not in BASE else 'plain'}", {"unit": a, "x": xs, "label": n, "got": got[i], "want": float(want[i])}))
        else:
            part.nt(("delta", nm, a))
    # multiplicative / power refusals for offset scales
    if ka != "P":
        return
    q = unyt_quantity(float(xs[0]), a)
    m = unyt_quantity(2.0, "m")
    sq = lambda: unyt_array(np.array([[2.0, 1.0], [1.0, 3.0]]), a)  # noqa: E731
    must = {
        "x*2": lambda: arr() * 2, "2*x": lambda: 2 * arr(), "x*x": lambda: arr() * arr(), "q*q": lambda: q * q,
        "x/2": lambda: arr() / 2, "2/x": lambda: 2 / arr(), "x/x": lambda: arr() / arr(), "x*m": lambda: arr() * m,
        "m*x": lambda: m * arr(), "x/m": lambda: arr() / m, "m/x": lambda: m / arr(), "x**2": lambda: arr() ** 2,
        "x**3": lambda: arr() ** 3, "x**0.5": lambda: arr() ** 0.5, "x**-1": lambda: arr() ** -1,
        "q**2": lambda: q**2, "np.sqrt": lambda: np.sqrt(arr()), "np.cbrt": lambda: np.cbrt(arr()),
        "np.square": lambda: np.square(arr()), "np.reciprocal": lambda: np.reciprocal(arr()),
        "np.power(x,3)": lambda: np.power(arr(), 3), "np.power(x,0.5)": lambda: np.power(arr(), 0.5),
        "np.multiply(x,x)": lambda: np.multiply(arr(), arr()), "np.divide(x,2)": lambda: np.divide(arr(), 2),
        "np.true_divide(x,x)": lambda: np.true_divide(arr(), arr()),
        "np.floor_divide(x,2)": lambda: np.floor_divide(arr(), 2), "x//x": lambda: arr() // arr(),
        "np.multiply.reduce": lambda: np.multiply.reduce(arr()), "np.prod": lambda: np.prod(arr()),
        "np.multiply.outer": lambda: np.multiply.outer(arr(), arr()),
        "np.multiply.accumulate": lambda: np.multiply.accumulate(arr()),
        "np.divide.reduce": lambda: np.divide.reduce(arr()),
        "x.prod()": lambda: arr().prod(), "x.dot(x)": lambda: arr().dot(arr()), "x@x": lambda: arr() @ arr(),
        "np.dot": lambda: np.dot(arr(), arr()), "np.outer": lambda: np.outer(arr(), arr()),
        "np.cross": lambda: np.cross(arr()[:3], arr()[:3]) if len(xs) >= 3 else (_ for _ in ()).throw(ValueError()),
        "np.var": lambda: np.var(arr()), "x.var()": lambda: arr().var(),
        "np.linalg.det": lambda: np.linalg.det(sq()), "np.linalg.inv": lambda: np.linalg.inv(sq()),
        "np.linalg.matrix_power": lambda: np.linalg.matrix_power(sq(), 2),
        "np.einsum(i,i)": lambda: np.einsum("i,i", arr(), arr()),
        "np.inner": lambda: np.inner(arr(), arr()), "np.vdot": lambda: np.vdot(arr(), arr()),
        "np.kron": lambda: np.kron(arr(), arr()), "np.convolve": lambda: np.convolve(arr(), arr()),
        "np.tensordot": lambda: np.tensordot(arr(), arr(), 1), "np.matmul": lambda: np.matmul(sq(), sq()),
        "np.trapezoid(y,x)": lambda: np.trapezoid(arr(), arr()),
        "x*=2": lambda: arr().__imul__(2), "x/=2": lambda: arr().__itruediv__(2), "x**=2": lambda: arr().__ipow__(2),
        "divmod(x,2)": lambda: divmod(arr(), 2), "np.divmod(x,x)": lambda: np.divmod(arr(), arr()),
        "Unit*Unit": lambda: q.units * m.units, "Unit/Unit": lambda: q.units / m.units,
        "Unit**2": lambda: q.units**2, "Unit**0.5": lambda: q.units**0.5, "1/Unit": lambda: 1 / q.units,
        "Unit*Unit(self)": lambda: q.units * q.units, "x*Unit": lambda: arr() * m.units,
    }
    # products with a unit-less or a dimensional second factor (x * 2 and x * m are refused: so is every function that multiplies),
    # and powers whose exponent is an array
    w = lambda: np.arange(1.0, len(xs) + 1)  # noqa: E731
    wm = lambda: unyt_array(np.arange(1.0, len(xs) + 1), "m")  # noqa: E731
    prods = {"np.dot": np.dot, "np.inner": np.inner, "np.outer": np.outer, "np.kron": np.kron, "np.vdot": np.vdot, "np.convolve": np.convolve,
             "np.correlate": np.correlate, "np.tensordot": lambda p_, q_: np.tensordot(p_, q_, 1), "np.matmul": np.matmul,
             "np.einsum(i,i)": lambda p_, q_: np.einsum("i,i", p_, q_), "np.einsum(i,j->ij)": lambda p_, q_: np.einsum("i,j->ij", p_, q_),
             "np.linalg.outer": np.linalg.outer, "np.multiply.outer": np.multiply.outer, "np.trapezoid": np.trapezoid}
    for fname, f_ in prods.items():
        must[f"{fname}(x,bare)"] = (lambda f_=f_: f_(arr(), w()))
        must[f"{fname}(bare,x)"] = (lambda f_=f_: f_(w(), arr()))
        must[f"{fname}(x,m)"] = (lambda f_=f_: f_(arr(), wm()))
    must.update({"x.dot(bare)": lambda: arr().dot(w()), "x.dot(m)": lambda: arr().dot(wm()), "np.trapezoid(x)": lambda: np.trapezoid(arr()),
                 "np.trapezoid(x,dx=m)": lambda: np.trapezoid(arr(), dx=unyt_quantity(2.0, "m")),
                 "q**[2,2]": lambda: q ** np.array([2, 2]), "q**[2.,2.,2.]": lambda: q ** np.array([2.0, 2.0, 2.0]), "np.power(q,[3,3])": lambda: np.power(q, [3, 3]),
                 "x**[2,..]": lambda: arr() ** np.full(len(xs), 2), "np.power(x,[0.5,..])": lambda: np.power(arr(), np.full(len(xs), 0.5)),
                 "np.float_power(x,2)": lambda: np.float_power(arr(), 2), "q**quantity(2)": lambda: q ** unyt_quantity(2.0, "dimensionless"),
                 "np.cross(x,bare)": lambda: np.cross(arr()[:3], w()[:3]) if len(xs) >= 3 else (_ for _ in ()).throw(ValueError())})
    for nm, fn in must.items():
        part.ev()
        st_, r = _call(fn)
        if st_ == "ok":
            out.append((f"C08:no-raise:multiplicative:{nm}", {"unit": a, "x": list(xs), "got": repr(r)[:160]}))
        else:
            part.nt(("refusal", nm, a))
            if not _lib_exc(r):
                part.count(f"refused with non-library exception {type(r).__name__}")
    # power 1 / unary plus keep the point scale
    for nm, fn in {"x**1": lambda: arr() ** 1, "+x": lambda: +arr(), "np.positive": lambda: np.positive(arr()),
                   "x*1 (dimensionless quantity 1)": None}.items():
        if fn is None:
            continue
        part.ev()
        st_, r = _call(fn)
        if st_ == "ok":
            back = _call(lambda: r.to("K"))
            want = [float(sa * x + za) for x in fx]
            if back[0] == "err" or any(abs(g - w) > _eps_tol(w, za) for g, w in zip(_vals(back[1]), want)):
                out.append((f"C08:identity-op-loses-offset:{nm}", {"unit": a, "x": list(xs), "to K": repr(back[1])[:120], "want": want}))


# ------------------------------------------------------------------ drivers
SPECIAL = [(50.0, 20.0), (-40.0, 7.5), (0.0, 273.15), (-273.15, 459.67), (1234.5, -0.125)]


def part_sweep(payload):
    """deterministic sweep: every ordered pair of the unit table with fixed readings"""
    known = core.Known("C08")
    part = core.Part()
    env = Env(payload["prefixes"])
    for (a, b) in payload["pairs"]:
        for k, (x, y) in enumerate(SPECIAL[: payload["nread"]]):
            out = []
            judge_pair(env, a, b, [x, x + 1.5, -x], [y, y - 2.25, 3 * y], scalar=(k % 2 == 1), part=part, out=out,
                       quick_forms=payload.get("quick_forms", False))
            for key, det in out:
                core.classify(known, part, key, det)
        for dt in ("int64", "float32"):
            out = []
            judge_pair(env, a, b, [50.0, 9.0, -18.0], [20.0, 5.0, 41.0], scalar=False, part=part, out=out, quick_forms=True, dtype=dt)
            for key, det in out:
                core.classify(known, part, key.replace("C08:", f"C08:{dt}:", 1), det)
        if len(part.samples) < 2:
            part.sample({"pair": [a, b], "readings": SPECIAL[0], "example": _example(a, b)})
    for a in payload["singles"]:
        out = []
        judge_single(env, a, [10.0, 20.0, 40.0, -3.5], part, out)
        for key, det in out:
            core.classify(known, part, key, det)
    return part


def _example(a, b):
    from unyt import unyt_quantity

    try:
        return repr(unyt_quantity(50.0, a) + unyt_quantity(20.0, b))
    except Exception as e:
        return type(e).__name__


reading = st.one_of(
    st.floats(-1e4, 1e4, allow_nan=False, width=64),
    st.sampled_from([0.0, -273.15, -459.67, 273.15, 32.0, 100.0, -40.0, 1e-3, 5e6]),
    st.integers(-500, 500).map(float),
)


def case_strategy(names):
    return st.tuples(
        st.sampled_from(names), st.sampled_from(names),
        st.lists(st.tuples(reading, reading), min_size=1, max_size=4), st.booleans(), st.sampled_from(["float64", "float64", "float64", "int64", "float32"]),
    )


def _hyp_case_factory(env):
    def fn(case, part):
        a, b, rd, scalar, dt = case
        out = []
        xs = [r[0] for r in rd]
        ys = [r[1] for r in rd]
        judge_pair(env, a, b, xs, ys, scalar, part, out, dtype=dt)
        if dt != "float64":
            out = [(k.replace("C08:", f"C08:{dt}:", 1), d) for k, d in out]
        if len(xs) >= 2:
            judge_single(env, a, xs, part, out)
        return out

    return fn


def part_random(payload):
    known = core.Known("C08")
    part = core.Part()
    env = Env(payload["prefixes"])
    names = sorted(env.tab)
    core.hyp_explore(part, known, case_strategy(names), _hyp_case_factory(env), payload["n"], payload["seed"],
                     label="C08:random")
    return part


def run(ctx):
    prefixes = ctx.pick(QUICK_PREFIXES, ASCII_PREFIXES)
    tab = unit_table(prefixes)
    names = sorted(tab)
    pairs = [(a, b) for a in names for b in names]
    ctx.rule = (
        f"exhaustive sweep over all {len(pairs)} ordered pairs of {len(names)} temperature units (6 base spellings + "
        f"prefixes {prefixes} on the prefixable ones) x 4 conversion routes x (+,-) x (operator, ufunc, in-place, out=) "
        "x 3 comparisons x fixed readings, plus Hypothesis-drawn readings (floats incl. the scale zeros) on random "
        "pairs, plus per-unit diff/ediff1d/ptp and ~60 multiplicative/power forms that must refuse. Oracle: affine "
        "model T[K]=s*x+z in exact rationals. non-trivial = distinct (pair, form) with different scale or exactly one "
        "offset operand that was judged, distinct (unit, refusing form), distinct (unit, delta helper)"
    )
    ctx.assumptions = [
        "unjudged by the statement: point+point, difference-point, point-vs-difference comparisons (counted in histogram)",
        "a refusal (any exception) is always acceptable for the additive forms",
        "float tolerance 32 eps x (sum of magnitudes of the terms in the affine map)",
    ]
    ctx.exhaustive = True
    nread = ctx.pick(2, 5)
    sh = core.shards(pairs, 16)
    singles = core.shards(names, 16)
    payloads = [{"prefixes": prefixes, "pairs": sh[i], "nread": nread, "singles": singles[i] if i < len(singles) else [],
                 "quick_forms": False} for i in range(len(sh))]
    ctx.merge(core.pmap(MOD, "part_sweep", payloads))
    n = ctx.pick(1600, 48000)
    ctx.merge(core.pmap(MOD, "part_random", [{"prefixes": prefixes, "n": n // 16, "seed": ctx.seed * 1000 + i} for i in range(16)]))


def replay(ctx, data):
    d = data["detail"]
    env = Env(ASCII_PREFIXES)
    out = []
    if isinstance(d, dict) and "case" in d:
        a, b, rd, scalar = d["case"][:4]
        judge_pair(env, a, b, [r[0] for r in rd], [r[1] for r in rd], scalar, ctx, out, dtype=(d["case"][4] if len(d["case"]) > 4 else "float64"))
        judge_single(env, a, [r[0] for r in rd] + [1.0], ctx, out)
    else:
        a = d.get("a") or d.get("from") or d.get("unit")
        b = d.get("b") or d.get("to") or a
        for k, (x, y) in enumerate(SPECIAL):
            judge_pair(env, a, b, [x, x + 1.5, -x], [y, y - 2.25, 3 * y], k % 2 == 1, ctx, out)
        judge_single(env, a, [10.0, 20.0, 40.0, -3.5], ctx, out)
    for key, det in out:
        ctx.violation(key, det)
