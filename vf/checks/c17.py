"""C17 -- conversions and mixed-unit arithmetic never truncate to integers.

Generated (dtype, unit pair, route, values up to the dtype limits, scalar/array).  Oracle: the
exact rational conversion (Fractions from the defining decimal ratios) rounded to the float
type the statement prescribes (same item size, at least 16 bits; complex stays complex);
dtype kind/size of the result; copy and in-place twins agree; RuntimeWarning iff an integer
beyond the documented exactly-representable range is converted.
"""

import warnings
from fractions import Fraction as Fr

import numpy as np
from hypothesis import strategies as st

from vf import core

MOD = "vf.checks.c17"
INT_DT = ["int8", "int16", "int32", "int64", "uint8", "uint16", "uint32", "uint64"]
FLT_DT = ["float16", "float32", "float64", "complex64", "complex128"]
# (from, to, exact factor, offset added after scaling)   value_to = value_from*factor + offset
PAIRS = [
    ("km", "m", Fr(1000), 0), ("m", "km", Fr(1, 1000), 0), ("inch", "cm", Fr(254, 100), 0), ("cm", "inch", Fr(100, 254), 0),
    ("hr", "s", Fr(3600), 0), ("g", "kg", Fr(1, 1000), 0), ("degC", "K", Fr(1), Fr(27315, 100)), ("J", "N*m", Fr(1), 0),
    ("mile", "ft", Fr(5280), 0), ("ft", "mile", Fr(1, 5280), 0), ("K", "degC", Fr(1), Fr(-27315, 100)), ("m", "m", Fr(1), 0),
    ("km/hr", "m/s", Fr(1000, 3600), 0), ("percent", "dimensionless", Fr(1, 100), 0),
]
# base-unit routes: unit -> (mks factor, cgs factor)
BASE = {"km": (Fr(1000), Fr(100000)), "inch": (Fr(254, 10000), Fr(254, 100)), "hr": (Fr(3600), Fr(3600)), "g": (Fr(1, 1000), Fr(1)),
        "mile": (Fr(1609344, 1000), Fr(160934400, 1000)), "m": (Fr(1), Fr(100)), "km/hr": (Fr(1000, 3600), Fr(100000, 3600))}
COPY_ROUTES = ["to", "in_units", "to_value"]
INPLACE = {"to": "convert_to_units", "in_base": "convert_to_base", "in_mks": "convert_to_mks", "in_cgs": "convert_to_cgs"}
BIN = ["add", "subtract", "maximum", "minimum", "less", "equal", "+", "-", "iadd", "out_add"]
MANT = {2: 11, 4: 24, 8: 53}
LARGE = {4: 2**24 + 1, 8: 2**53 + 1}  # documented thresholds (user guide)


def _int_values(dt):
    info = np.iinfo(dt)
    edge = [info.min, info.max, 0, 1, -1 if info.min < 0 else 1, 7, 3]
    for s in (4, 8):
        for d in (-1, 0, 1, 2):
            v = LARGE[s] + d
            if info.min <= v <= info.max:
                edge += [v, -v if info.min < 0 else v]
    edge = [e for e in edge if info.min <= e <= info.max]
    return st.one_of(st.integers(int(info.min), int(info.max)), st.sampled_from(edge), st.integers(max(int(info.min), -200), min(int(info.max), 200)))


@st.composite
def case(draw):
    dt = draw(st.sampled_from(INT_DT + INT_DT + FLT_DT))
    kind = draw(st.sampled_from(["convert", "convert", "base", "binary"]))
    n = draw(st.integers(1, 3))
    if dt in INT_DT:
        vals = [draw(_int_values(dt)) for _ in range(n)]
    else:
        vals = [draw(st.one_of(st.integers(-2000, 2000).map(float), st.floats(-1e4, 1e4, allow_nan=False, width=16))) for _ in range(n)]
    c = {"dtype": dt, "kind": kind, "values": vals, "scalar": n == 1 and draw(st.booleans())}
    if kind == "convert":
        c["pair"] = draw(st.integers(0, len(PAIRS) - 1))
        c["route"] = draw(st.sampled_from(COPY_ROUTES))
    elif kind == "base":
        c["unit"] = draw(st.sampled_from(sorted(BASE)))
        c["route"] = draw(st.sampled_from(["in_base", "in_mks", "in_cgs"]))
    else:
        c["pair"] = draw(st.sampled_from([i for i, p in enumerate(PAIRS) if p[3] == 0 and p[2] != 1]))
        c["op"] = draw(st.sampled_from(BIN))
        c["dtype2"] = draw(st.sampled_from([dt, dt, "int16", "int64", "float32"]))
        if c["dtype2"] in INT_DT:
            c["values2"] = [draw(_int_values(c["dtype2"])) for _ in range(n)]
        else:
            c["values2"] = [float(draw(st.integers(-2000, 2000))) for _ in range(n)]
    return c


def _mk(dt, vals, unit, scalar):
    from unyt import unyt_array, unyt_quantity

    d = np.dtype(dt)
    if d.kind == "c":
        arr = np.array([complex(v, -0.5 * v) for v in vals], dtype=d)
    else:
        arr = np.array(vals, dtype=d)
    return unyt_quantity(arr[0], unit) if scalar else unyt_array(arr, unit)


def _expect_dtype(d):
    d = np.dtype(d)
    if d.kind == "c":
        return d
    return np.dtype("f" + str(max(2, d.itemsize)))


def _exact(vals, dt, factor, offset):
    d = np.dtype(dt)
    out = []
    for v in vals:
        if d.kind == "c":
            out.append((Fr(float(np.array(v, dtype=_real(d)))) * factor + offset, Fr(float(np.array(-0.5 * v, dtype=_real(d)))) * factor))
        elif d.kind == "f":
            out.append(Fr(float(np.array(v, dtype=d))) * factor + offset)
        else:
            out.append(Fr(int(v)) * factor + offset)
    return out


def _real(d):
    return np.dtype("f" + str(d.itemsize // 2))


def _ulp_ok(got, want_exact, ftype, nulp=2, slack_in=None):
    """got (python float) equals want_exact rounded to ftype within nulp ulps; overflow -> inf allowed"""
    fi = np.finfo(ftype)
    w = float(want_exact) if abs(want_exact) < Fr(10) ** 300 else float("inf") * (1 if want_exact > 0 else -1)
    if abs(w) > float(fi.max):
        return not np.isfinite(got) or abs(got) >= float(fi.max) * (1 - 2 * float(fi.eps))
    tol = nulp * float(fi.eps) * abs(w) + float(fi.smallest_subnormal) * 4
    if slack_in is not None:
        tol += slack_in
    return abs(got - w) <= tol


def judge(c, part):
    out = []
    dt = np.dtype(c["dtype"])
    part.ev()
    part.count(f"kind {c['kind']}")
    part.count(f"dtype {c['dtype']}")
    want_dt = _expect_dtype(dt)
    ftype = want_dt if want_dt.kind == "f" else _real(want_dt)
    isint = dt.kind in "iu"
    ctx = {k: c[k] for k in c}

    f16edge = ""
    if c["kind"] == "binary":
        d2_ = np.dtype(c["dtype2"])
        fac = PAIRS[c["pair"]][2]
        if (d2_.kind in "iu" and d2_.itemsize <= 2) or (isint and dt.itemsize <= 2):
            if any(abs(int(v)) * max(fac, 1) > 65504 for v in c["values2"]) or any(abs(int(v)) > 65504 for v in c["values"]) or fac > 65504:
                f16edge = ":float16-range-edge"
    if dt.kind in "iuf" and dt.itemsize <= 2 and c["kind"] != "binary":
        fac = PAIRS[c["pair"]][2] if c["kind"] == "convert" else max(BASE[c["unit"]])
        if any(abs(v) > 65504 for v in c["values"]) or fac > 65504 or any(abs(v) * fac > 65504 for v in c["values"]):
            f16edge = ":float16-range-edge"

    def bad(key, **kw):
        key = key + (f16edge if key.split(":")[0] in ("twin-values-differ", "wrong-value", "comparison-wrong") else "")
        d = dict(ctx)
        d.update({k: (repr(v)[:200]) for k, v in kw.items()})
        out.append((f"C17:{key}", d))

    def check_values(res, exact, label, ft=ftype, offset_mag=0.0):
        arr = np.atleast_1d(np.asarray(res))
        for g, w in zip(arr, exact):
            if isinstance(w, tuple):
                ok = _ulp_ok(float(np.real(g)), w[0], ft, slack_in=4 * float(np.finfo(ft).eps) * offset_mag) and _ulp_ok(float(np.imag(g)), w[1], ft)
            else:
                ok = _ulp_ok(float(g), w, ft, slack_in=4 * float(np.finfo(ft).eps) * offset_mag)
            if not ok:
                trunc = isinstance(w, Fr) and float(g) == float(int(w)) and w.denominator != 1
                bad(f"{'integer-truncated' if trunc else 'wrong-value'}:{label}", got=g, want=float(w) if isinstance(w, Fr) else [float(x) for x in w])
                return False
        return True

    def run(fn):
        with warnings.catch_warnings(record=True) as ws:
            warnings.simplefilter("always")
            try:
                r = fn()
            except Exception as e:
                return "err", e, []
        return "ok", r, [w for w in ws if issubclass(w.category, RuntimeWarning) and "verflow encountered while converting" in str(w.message)]

    if c["kind"] in ("convert", "base"):
        if c["kind"] == "convert":
            fu, tu, factor, offset = PAIRS[c["pair"]]
            route = c["route"]
            x = _mk(dt, c["values"], fu, c["scalar"])
            fn = {"to": lambda: x.to(tu), "in_units": lambda: x.in_units(tu), "to_value": lambda: x.to_value(tu)}[route]
            twin = (lambda y: y.convert_to_units(tu))
        else:
            fu = c["unit"]
            route = c["route"]
            factor = BASE[fu][1] if route == "in_cgs" else BASE[fu][0]
            offset = 0
            x = _mk(dt, c["values"], fu, c["scalar"])
            fn = {"in_base": lambda: x.in_base(), "in_mks": lambda: x.in_mks(), "in_cgs": lambda: x.in_cgs()}[route]
            twin = {"in_base": lambda y: y.convert_to_base(), "in_mks": lambda y: y.convert_to_mks(), "in_cgs": lambda y: y.convert_to_cgs()}[route]
        nontriv = isint and (factor.denominator != 1 or factor.numerator != 1 or offset != 0)
        if nontriv:
            part.nt((c["dtype"], fu, route))
        exact = _exact(c["values"], dt, factor, Fr(offset))
        st_, r, ws = run(fn)
        if st_ == "err":
            bad(f"copy-route-raises:{route}", error=r)
            return out
        rdt = np.asarray(r).dtype if not isinstance(r, (float, complex)) else np.dtype(type(r))
        if route == "to_value" and c["scalar"]:
            # documented to return a Python float (complex for complex data)
            if not isinstance(r, (float, complex)) or isinstance(r, bool):
                bad("to_value-scalar-type", got=type(r))
            check_values(r, exact, route, offset_mag=abs(float(offset)))
        else:
            if rdt.kind in "iub":
                bad(f"integer-result:{route}:{'int' if isint else 'float'}-input", dtype=rdt, got=r)
                return out
            if rdt != want_dt:
                bad(f"wrong-dtype:{route}:{dt.kind}{dt.itemsize}", dtype=rdt, want=want_dt)
            else:
                check_values(r, exact, route, offset_mag=abs(float(offset)))
        # warning: iff beyond the documented range
        if isint and dt.itemsize in LARGE and route in ("to", "in_units", "to_value"):
            big = any(abs(int(v)) > LARGE[dt.itemsize] and int(ftype.type(int(v))) != int(v) for v in c["values"])
            small = all(abs(int(v)) <= 2 ** MANT[dt.itemsize] for v in c["values"])
            if big and not ws:
                bad(f"missing-overflow-warning:{route}")
            if small and ws:
                bad(f"spurious-overflow-warning:{route}")
        # in-place twin
        y = x.copy()
        st2, _, ws2 = run(lambda: twin(y))
        if st2 == "err":
            if isint and dt.itemsize == 1:
                part.count("8-bit in-place refused (documented)")
            else:
                bad(f"inplace-raises:{INPLACE.get(route, 'convert_to_units')}", error=_)
            return out
        if route != "to_value":
            if y.dtype != rdt:
                bad(f"twin-dtype-differs:{route}", copy=rdt, inplace=y.dtype)
            elif not np.array_equal(np.asarray(y), np.asarray(r), equal_nan=True):
                a, b = np.atleast_1d(np.asarray(y)).astype(complex), np.atleast_1d(np.asarray(r)).astype(complex)
                fe = float(np.finfo(ftype).eps)
                with np.errstate(all="ignore"):
                    close = np.abs(a - b) <= 2 * fe * (np.abs(b) + abs(float(offset)))
                if not bool(np.all(close | (~np.isfinite(a) & ~np.isfinite(b)))):
                    bad(f"twin-values-differ:{route}", copy=r, inplace=y)
        if isint and dt.itemsize in LARGE:
            big = any(abs(int(v)) > LARGE[dt.itemsize] and int(ftype.type(int(v))) != int(v) for v in c["values"])
            if big and not ws2:
                bad(f"missing-overflow-warning:inplace:{route}")
        # a caller that turns the overflow RuntimeWarning into an exception (python -W error) gets either the finished
        # conversion or an untouched target - never a relabelled buffer holding the old integer bits
        if isint and dt.itemsize in LARGE and ws2 and route != "to_value":
            z = x.copy()
            snap = (np.asarray(z).tobytes(), str(z.dtype), str(z.units))
            part.ev()
            part.count("in-place conversion with the overflow warning raised as an error")
            with warnings.catch_warnings():
                warnings.simplefilter("ignore")
                warnings.simplefilter("error", RuntimeWarning)
                try:
                    twin(z)
                    raised = None
                except Warning as e:
                    raised = e
                except Exception as e:
                    raised = e
            now = (np.asarray(z).tobytes(), str(z.dtype), str(z.units))
            untouched = now == snap
            finished = z.dtype == y.dtype and str(z.units) == str(y.units) and np.array_equal(np.asarray(z), np.asarray(y), equal_nan=True)
            if not (untouched or finished):
                bad(f"warning-as-error-leaves-garbage:{INPLACE.get(route, 'convert_to_units')}", raised=raised, target_now=z, original=x, converted=y)
        if len(part.samples) < 1:
            part.sample({"dtype": c["dtype"], "from": fu, "route": route, "values": c["values"], "result": repr(r)[:100], "result dtype": str(rdt)})
        return out

    # ---- mixed-unit binary ufuncs: a in `tu`, b in `fu` (b is the operand that gets rescaled)
    fu, tu, factor, _ = PAIRS[c["pair"]]
    d2 = np.dtype(c["dtype2"])
    a = _mk(dt, c["values"], tu, c["scalar"])
    b = _mk(d2, c["values2"], fu, c["scalar"])
    op = c["op"]
    f = {"add": lambda: np.add(a, b), "subtract": lambda: np.subtract(a, b), "maximum": lambda: np.maximum(a, b),
         "minimum": lambda: np.minimum(a, b), "less": lambda: np.less(a, b), "equal": lambda: np.equal(a, b),
         "+": lambda: a + b, "-": lambda: a - b}
    if op == "iadd":
        if c["scalar"]:
            return out
        def f_iadd():
            t = a.copy()
            t += b
            return t
        fn = f_iadd
    elif op == "out_add":
        if c["scalar"]:
            return out
        def f_out():
            buf = a.copy()
            np.add(a, b, out=buf)
            return buf
        fn = f_out
    else:
        fn = f[op]
    if (isint or d2.kind in "iu") and factor != 1:
        part.nt((c["dtype"], c["dtype2"], fu, tu, op))
    st_, r, ws = run(fn)
    if st_ == "err":
        if (dt.itemsize == 1 and isint) or (d2.itemsize == 1 and d2.kind in "iu"):
            part.count("8-bit operand refused in mixed-unit arithmetic")
            return out
        bad(f"binary-raises:{op}", error=r)
        return out
    ra = np.atleast_1d(np.asarray(r))
    if op in ("less", "equal"):
        ea = _exact(c["values"], dt, Fr(1), Fr(0))
        eb = _exact(c["values2"], d2, factor, Fr(0))
        for g, x_, y_ in zip(ra, ea, eb):
            if isinstance(x_, tuple) or isinstance(y_, tuple):
                continue
            if x_ == y_:
                continue
            # judged only when the exact values are separated by more than the rounding of the narrower float
            w2 = np.dtype("f" + str(max(2, d2.itemsize))) if d2.kind != "c" else _real(d2)
            if abs(x_ - y_) <= 8 * Fr(float(np.finfo(w2).eps)) * (abs(x_) + abs(y_)):
                continue
            want = (x_ < y_) if op == "less" else False
            if bool(g) != want:
                bad(f"comparison-wrong:{op}", got=bool(g), a=float(x_), b=float(y_))
                break
        return out
    if ra.dtype.kind in "iub":
        bad(f"integer-result:binary:{op}", dtype=ra.dtype, got=r)
        return out
    if dt.kind == "c" or d2.kind == "c":
        return out
    # precision judged at the width of the rescaled operand (documented: float of its item size)
    w2 = np.dtype("f" + str(max(2, d2.itemsize)))
    w1 = np.dtype("f" + str(max(2, dt.itemsize))) if isint else dt
    wj = w2 if np.finfo(w2).eps > np.finfo(w1).eps else w1
    ea = _exact(c["values"], dt, Fr(1), Fr(0))
    eb = _exact(c["values2"], d2, factor, Fr(0))
    for g, x_, y_ in zip(ra, ea, eb):
        if op in ("add", "+", "iadd", "out_add"):
            w = x_ + y_
        elif op in ("subtract", "-"):
            w = x_ - y_
        elif op == "maximum":
            w = max(x_, y_)
        else:
            w = min(x_, y_)
        slack = 4 * float(np.finfo(wj).eps) * float(abs(x_) + abs(y_))
        if not _ulp_ok(float(g), w, wj, nulp=4, slack_in=slack):
            trunc = float(g) == float(int(w)) and w.denominator != 1
            bad(f"{'integer-truncated' if trunc else 'wrong-value'}:binary:{op}", got=float(g), want=float(w), result_dtype=ra.dtype)
            break
    return out


def part_random(payload):
    known = core.Known("C17")
    part = core.Part()
    core.hyp_explore(part, known, case(), judge, payload["n"], payload["seed"], label="C17:cases")
    return part


def temp_mixed(known, part):
    """temperature difference + point in another scale, operands of different widths: the difference is the operand that gets
    rescaled and must not be squeezed through the (narrower) float type of the other operand"""
    from unyt import unyt_array

    for du, pu, f in (("delta_degF", "degC", Fr(5, 9)), ("delta_degC", "degF", Fr(9, 5))):
        for dta in ("int64", "float64", "int32", "uint32"):
            for dtb in ("int16", "int32", "float32", "float16", "int64", "uint16"):
                xs = [100000, 250000, 7] if dta != "uint32" else [100000, 70000, 7]
                ys = [20, 40, 1000]
                for order in ("diff+point", "point+diff", "np.add", "np.add(out=)"):
                    a = unyt_array(np.array(xs, dtype=dta), du)
                    b = unyt_array(np.array(ys, dtype=dtb), pu)
                    part.ev()
                    try:
                        with warnings.catch_warnings():
                            warnings.simplefilter("ignore")
                            if order == "diff+point":
                                r = a + b
                            elif order == "point+diff":
                                r = b + a
                            elif order == "np.add":
                                r = np.add(a, b)
                            else:
                                r = unyt_array(np.zeros(3), pu)
                                np.add(a, b, out=r)
                    except Exception as e:
                        part.count(f"temperature difference+point refused ({type(e).__name__})")
                        continue
                    part.nt(("temp-mixed", du, dta, dtb, order))
                    got = np.asarray(r, dtype=float)
                    want = [float(Fr(x) * f + y) for x, y in zip(xs, ys)]
                    if str(r.units) not in (pu, "°C", "°F") and r.units != b.units:
                        core.classify(known, part, f"C17:temp-mixed:result-unit:{order}", {"diff": du, "point": pu, "dtypes": [dta, dtb], "got": str(r.units)})
                        continue
                    wa = np.dtype("f" + str(np.dtype(dta).itemsize)) if np.dtype(dta).kind in "iu" else np.dtype(dta)
                    if np.asarray(r).dtype.kind not in "fc":
                        core.classify(known, part, f"C17:integer-result:temp-mixed:{order}", {"diff": du, "point": pu, "dtypes": [dta, dtb], "got": repr(r)[:80]})
                    elif not np.all(np.isfinite(got)) and float(np.finfo(np.asarray(r).dtype).max) > 1e6:
                        core.classify(known, part, f"C17:temp-mixed:overflow-in-a-wide-result:{order}", {"diff": du, "point": pu, "dtypes": [dta, dtb], "got": repr(r)[:100], "want": want})
                    elif np.all(np.isfinite(got)) and not np.allclose(got, want, rtol=16 * float(np.finfo(wa).eps), atol=2.0 if dtb == "float16" else 1e-3 if dtb == "float32" else 1e-9):
                        # the rescaled operand (the difference) keeps the precision of its own float type; the point operand may add its own rounding
                        core.classify(known, part, f"C17:temp-mixed:difference-lost-precision:{order}", {"diff": du, "point": pu, "dtypes": [dta, dtb], "got": got.tolist(), "want": want})


def equiv_ints(known, part):
    """equivalence routes on integer data: floating-point result holding the same values as the same call on float64 data
    (formulas with powers must not run in wrapping integer arithmetic), copying and in-place forms alike"""
    from unyt import unyt_array

    routes = [("effective_temperature", "K", "W/m**2", [60000, 300, 5]), ("effective_temperature", "W/m**2", "K", [60000, 250, 7]), ("sound_speed", "m/s", "K", [70000, 300, 3]),
              ("sound_speed", "K", "m/s", [60000, 200, 9]), ("thermal", "K", "eV", [50000, 120, 2]), ("mass_energy", "g", "erg", [40000, 100, 1]), ("spectral", "cm", "Hz", [30000, 21, 4]),
              ("schwarzschild", "kg", "m", [65000, 90, 6]), ("compton", "g", "cm", [100, 50, 3]), ("number_density", "g/cm**3", "cm**-3", [200, 10, 1]), ("lorentz", "dimensionless", "km/s", [200, 3, 2])]
    for eq, fu, tu, vals in routes:
        for dt in INT_DT:
            info = np.iinfo(dt)
            v = [x for x in vals if x <= info.max]
            if not v:
                continue
            ref = unyt_array(np.array(v, dtype="float64"), fu).to_equivalent(tu, eq)
            for form in ("to_equivalent", "to", "in_units", "to_value", "convert_to_equivalent"):
                q = unyt_array(np.array(v, dtype=dt), fu)
                part.ev()
                try:
                    with warnings.catch_warnings():
                        warnings.simplefilter("ignore")
                        if form == "to_equivalent":
                            r = q.to_equivalent(tu, eq)
                        elif form == "to":
                            r = q.to(tu, eq)
                        elif form == "in_units":
                            r = q.in_units(tu, equivalence=eq)
                        elif form == "to_value":
                            r = q.to_value(tu, eq)
                        else:
                            q.convert_to_equivalent(tu, eq)
                            r = q
                except Exception as e:
                    if np.dtype(dt).itemsize == 1 and form == "convert_to_equivalent":
                        part.count("8-bit in-place refused (documented)")
                        continue
                    core.classify(known, part, f"C17:equivalence-raises:{form}:{np.dtype(dt).kind}{np.dtype(dt).itemsize}", {"equivalence": eq, "from": fu, "to": tu, "dtype": dt, "error": f"{type(e).__name__}: {e}"[:160]})
                    continue
                part.nt(("equiv", eq, fu, dt, form))
                got = np.asarray(r)
                if got.dtype.kind not in "fc":
                    core.classify(known, part, f"C17:integer-result:equivalence:{form}", {"equivalence": eq, "dtype": dt, "got": repr(r)[:80]})
                    continue
                # rounding to the float type of the input's item size is allowed for the in-place form; the copying form computes in double
                tol = 1e-11
                if form == "convert_to_equivalent" and np.dtype(dt).itemsize < 8:
                    # in place the formula runs in the float type of the buffer's item size: intermediate overflow / subnormals of
                    # float16/float32 are that type's limits, not a truncation
                    part.count("in-place equivalence on a narrow integer buffer: dtype clause only")
                    continue
                if not np.allclose(got.astype(float), np.asarray(ref, dtype=float), rtol=tol, atol=0):
                    core.classify(known, part, f"C17:equivalence-values-differ-from-float64-input:{form}:{np.dtype(dt).kind}{np.dtype(dt).itemsize}",
                                  {"equivalence": eq, "from": fu, "to": tu, "dtype": dt, "values": v, "got": got.tolist(), "float64_input_gives": np.asarray(ref).tolist()})


def width_kept(known, part):
    """mixed-unit binary ufuncs on float16/float32 (and int16/int32) data keep their width whatever Python type the unit table
    stores the scale in (the Planck units and units added with a NumPy scalar carry np.float64 scales)"""
    import unyt.dimensions as D
    from unyt import unyt_array
    from unyt.unit_registry import UnitRegistry

    reg = UnitRegistry()
    reg.add("vf_npscale", np.float64(1000.0), D.length)
    reg.add("vf_pyscale", 1000.0, D.length)
    pairs = [("m_pl", "kg", None), ("l_pl", "m", None), ("t_pl", "s", None), ("E_pl", "J", None), ("T_pl", "K", None), ("vf_npscale", "m", reg), ("vf_pyscale", "m", reg),
             ("m", "vf_npscale", reg), ("kg", "m_pl", None)]
    for ua, ub, rg in pairs:
        for dt in ("float32", "float16", "float64"):  # integer operands may legitimately come back wider (int32 + rescaled float32 -> float64)
            for opn, op in (("+", lambda x, y: x + y), ("-", lambda x, y: x - y), ("np.maximum", np.maximum), ("np.add", np.add), ("<", lambda x, y: x < y)):
                a = unyt_array(np.array([1, 2], dtype=dt), ua, registry=rg)
                b = unyt_array(np.array([3, 4], dtype=dt), ub, registry=rg)
                part.ev()
                try:
                    with warnings.catch_warnings():
                        warnings.simplefilter("ignore")
                        r = op(a, b)
                except Exception as e:
                    part.count(f"width grid: refused ({type(e).__name__})")
                    continue
                if opn == "<":
                    continue
                part.nt(("width", ua, ub, dt, opn))
                want = np.dtype("f" + str(np.dtype(dt).itemsize)) if np.dtype(dt).kind in "iu" else np.dtype(dt)
                if np.asarray(r).dtype != want:
                    core.classify(known, part, f"C17:width-changed:mixed-unit-{opn}:{np.dtype(dt).kind}{np.dtype(dt).itemsize}",
                                  {"a": ua, "b": ub, "dtype": dt, "result_dtype": str(np.asarray(r).dtype), "scale_type": type((rg or a.units.registry).lut[ua.split("*")[0]][0]).__name__ if ua in (rg or a.units.registry).lut else "?"})

    # conversion routes between the same pairs: float16 / float32 / complex64 data stay in their width, integers get the float of their
    # item size, and the copying and in-place routes agree on dtype and values -- whatever type the scale is stored in
    routes = [("to", lambda x, t: x.to(t)), ("in_units", lambda x, t: x.in_units(t)), ("to_value", lambda x, t: x.to_value(t)), ("in_base", lambda x, t: x.in_base()),
              ("in_mks", lambda x, t: x.in_mks()), ("in_cgs", lambda x, t: x.in_cgs()), ("convert_to_units", lambda x, t: (x.convert_to_units(t), x)[1]),
              ("convert_to_base", lambda x, t: (x.convert_to_base(), x)[1]), ("convert_to_cgs", lambda x, t: (x.convert_to_cgs(), x)[1]),
              ("to(Unit object)", lambda x, t: x.to(unyt.Unit(t, registry=x.units.registry))), ("unyt_array(x, target)", lambda x, t: unyt_array(x, t, registry=x.units.registry) if False else x.to(t)),
              ("x.units = via to_equivalent-free copy", None)]
    import unyt

    for ua, ub, rg in pairs:
        for dt in ("float32", "float16", "complex64", "int16", "int32", "uint32", "float64", "complex128", "int64"):
            res = {}
            for rn, fn in routes:
                if fn is None:
                    continue
                x = unyt_array(np.array([1, 2, 3], dtype=dt), ua, registry=rg)
                part.ev()
                try:
                    with warnings.catch_warnings():
                        warnings.simplefilter("ignore")
                        r = fn(x, ub)
                except Exception as e:
                    part.count(f"width grid (routes): refused ({type(e).__name__})")
                    continue
                part.nt(("width-route", ua, ub, dt, rn))
                k, sz = np.dtype(dt).kind, np.dtype(dt).itemsize
                want = np.dtype(("c" if k == "c" else "f") + str(sz))
                got = np.asarray(r).dtype
                res[rn] = np.asarray(r)
                if got != want:
                    core.classify(known, part, f"C17:width-changed:route:{rn}:{k}{sz}", {"from": ua, "to": ub, "dtype": dt, "result_dtype": str(got), "want": str(want)})
            for cp, ip in (("to", "convert_to_units"), ("in_base", "convert_to_base"), ("in_cgs", "convert_to_cgs")):
                if cp in res and ip in res:
                    a_, b_ = res[cp], res[ip]
                    eps = 4 * float(np.finfo(b_.dtype if b_.dtype.kind in "fc" else float).eps)
                    with np.errstate(all="ignore"):
                        same = np.all((a_ == b_) | (np.abs(a_.astype(complex) - b_.astype(complex)) <= eps * np.abs(b_.astype(complex))))
                    if a_.dtype != b_.dtype or not same:
                        core.classify(known, part, f"C17:copy-and-inplace-disagree:route:{cp}/{ip}:{np.dtype(dt).kind}{np.dtype(dt).itemsize}",
                                      {"from": ua, "to": ub, "dtype": dt, "copy": [str(a_.dtype), a_.tolist().__repr__()[:80]], "inplace": [str(b_.dtype), b_.tolist().__repr__()[:80]]})



def complex_mixed(known, part):
    """complex data in different commensurable units: the rescaled operand keeps its imaginary part, the result keeps the complex type
    and width of the operands, and equals the exact complex arithmetic on the rescaled numbers"""
    from fractions import Fraction as Fr

    from unyt import unyt_array, unyt_quantity

    SC = {"km": Fr(1000), "m": Fr(1), "cm": Fr(1, 100), "hr": Fr(3600), "s": Fr(1), "min": Fr(60), "kg": Fr(1000), "g": Fr(1), "delta_degC": Fr(9, 5), "delta_degF": Fr(1), "K": Fr(9, 5), "R": Fr(1)}
    pairs = [("km", "m"), ("m", "km"), ("cm", "km"), ("hr", "s"), ("min", "hr"), ("g", "kg"), ("delta_degC", "delta_degF"), ("R", "K"), ("K", "delta_degF")]
    vals_a = [1 + 2j, -3 + 0.5j, 0.25 - 4j]
    vals_b = [2 - 1j, 0.5 + 8j, -16 + 0.125j]
    forms = [("a+b", lambda a, b: a + b, 1), ("a-b", lambda a, b: a - b, -1), ("np.add", lambda a, b: np.add(a, b), 1), ("np.subtract", lambda a, b: np.subtract(a, b), -1),
             ("a+=b", lambda a, b: a.__iadd__(b), 1), ("np.subtract(out=a)", lambda a, b: np.subtract(a, b, out=a), -1), ("a+b[0] (scalar)", lambda a, b: a + b[0], None), ("a==b", lambda a, b: a == b, "eq"),
             ("a!=b", lambda a, b: a != b, "ne"), ("np.isclose", lambda a, b: np.isclose(a, b), "eq")]
    for ua, ub in pairs:
        for dt in ("complex128", "complex64"):
            for fname, fn, sign in forms:
                a = unyt_array(np.array(vals_a, dtype=dt), ua)
                b = unyt_array(np.array(vals_b, dtype=dt), ub)
                ratio = complex(SC[ub] / SC[ua])
                if sign in ("eq", "ne"):
                    b = unyt_array(np.array([v / ratio for v in vals_a], dtype=dt) if True else None, ub)  # the same quantities written in the other unit
                    b[1] = b[1] + (0 + 1j) * abs(b[1])  # one of them differs in the imaginary part only
                part.ev()
                try:
                    with warnings.catch_warnings(record=True) as w:
                        warnings.simplefilter("always")
                        r = fn(a, b)
                except Exception as e:
                    part.count(f"complex grid: refused ({type(e).__name__})")
                    continue
                part.nt(("complex", ua, ub, dt, fname))
                lost = [str(x.message)[:60] for x in w if "imaginary" in str(x.message)]
                if sign in ("eq", "ne"):
                    want = [True, False, True] if sign == "eq" else [False, True, False]
                    if fname == "np.isclose" and dt == "complex64":
                        continue
                    if list(np.asarray(r)) != want or lost:
                        core.classify(known, part, f"C17:complex-comparison:{fname}", {"a": ua, "b": ub, "dtype": dt, "got": [bool(x) for x in np.asarray(r)], "want": want, "warnings": lost})
                    continue
                if sign is None:
                    want = [x + vals_b[0] * ratio for x in vals_a]
                else:
                    want = [x + sign * y * ratio for x, y in zip(vals_a, vals_b)]
                got = np.asarray(r)
                eps = 8 * float(np.finfo(np.dtype(dt)).eps)
                ok_v = got.shape == (3,) and all(abs(g - w_) <= eps * (abs(w_) + abs(ratio) * 16) for g, w_ in zip(got.tolist(), want))
                if got.dtype != np.dtype(dt) or not ok_v or lost or r.units != a.units:
                    core.classify(known, part, f"C17:complex-mixed-units:{fname}:{dt}", {"a": ua, "b": ub, "got": repr(r)[:160], "dtype": str(got.dtype), "want": [str(x) for x in want], "warnings": lost})



def list_operands(known, part):
    """Python lists / tuples of integer-typed quantities written in different commensurable units, as constructor argument and as
    operand of mixed-unit binary ufuncs: the items are converted to the first item's unit as floating-point numbers, never written
    back into an integer buffer"""
    from fractions import Fraction as Fr

    from unyt import unyt_array, unyt_quantity

    SC = {"km": Fr(1000), "m": Fr(1), "cm": Fr(1, 100), "mm": Fr(1, 1000), "hr": Fr(3600), "min": Fr(60), "s": Fr(1)}
    item_sets = [[(1, "km"), (500, "m")], [(3, "m"), (1, "km"), (25, "cm")], [(2, "hr"), (45, "min"), (30, "s")], [(7, "cm"), (3, "mm"), (2, "m"), (7, "cm")],
                 [(1, "km"), (1500, "m"), (1, "km")]]
    for dt in ("int8", "int16", "int32", "int64", "uint8", "uint16", "uint32", "uint64", "pyint", "float32"):
        for items in item_sets:
            if dt.endswith("int8") and any(abs(v) > 127 for v, _ in items):
                continue
            mkv = (lambda v: v) if dt == "pyint" else (lambda v: np.dtype(dt).type(v))
            for container in (list, tuple):
                seq = lambda: container(unyt_quantity(mkv(v), u) for v, u in items)  # noqa: E731
                u0 = items[0][1]
                want = [Fr(v) * SC[u] / SC[u0] for v, u in items]
                lhs_vals = [2, 1, 5, 3][: len(items)]
                lhs = lambda: unyt_array(np.array(lhs_vals, dtype="int64" if dt == "pyint" else dt), u0)  # noqa: E731
                forms = {
                    "unyt_array(seq)": (lambda: unyt_array(seq()), want),
                    "np.add(arr, seq)": (lambda: np.add(lhs(), seq()), [Fr(a) + w for a, w in zip(lhs_vals, want)]),
                    "np.subtract(seq, arr)": (lambda: np.subtract(seq(), lhs()), [w - Fr(a) for a, w in zip(lhs_vals, want)]),
                    "arr + seq": (lambda: lhs() + seq(), [Fr(a) + w for a, w in zip(lhs_vals, want)]),
                    "np.maximum(arr, seq)": (lambda: np.maximum(lhs(), seq()), [max(Fr(a), w) for a, w in zip(lhs_vals, want)]),
                    "arr >= seq": (lambda: lhs() >= seq(), [Fr(a) >= w for a, w in zip(lhs_vals, want)]),
                    "np.less(seq, arr)": (lambda: np.less(seq(), lhs()), [w < Fr(a) for a, w in zip(lhs_vals, want)]),
                    "np.hstack([arr, unyt_array(seq)])": (lambda: np.hstack([lhs(), unyt_array(seq())]), [Fr(a) for a in lhs_vals] + want),
                }
                for nm, (fn, w) in forms.items():
                    part.ev()
                    try:
                        r = fn()
                    except Exception as e:
                        part.count(f"list operand refused: {nm} ({type(e).__name__})")
                        continue
                    part.nt(("list-operands", dt, nm, container.__name__, len(items)))
                    det = {"form": nm, "dtype": dt, "container": container.__name__, "items": [f"{v} {u}" for v, u in items], "got": repr(r)[:160]}
                    got = np.asarray(r)
                    if isinstance(w[0], bool):
                        if got.tolist() != w:
                            core.classify(known, part, f"C17:list-operands:wrong-comparison:{nm}", dict(det, want=w))
                        continue
                    if hasattr(r, "units") and str(r.units) != u0:
                        scale = SC.get(str(r.units))
                        if scale is None:
                            part.count("list operand: result in an unexpected unit, not judged")
                            continue
                        w = [x * SC[u0] / scale for x in w]
                    if any(x.denominator != 1 for x in w) and got.dtype.kind in "iu":
                        core.classify(known, part, f"C17:list-operands:integer-result:{nm}", dict(det, want=[float(x) for x in w]))
                        continue
                    tol = 2e-3 if dt.endswith("8") or dt.endswith("16") else 1e-6
                    if got.shape != (len(w),) or not all(abs(float(g) - float(x)) <= tol * max(1.0, abs(float(x))) for g, x in zip(got, w)):
                        core.classify(known, part, f"C17:list-operands:wrong-value:{nm}", dict(det, want=[float(x) for x in w]))
                    if len(part.samples) < 1:
                        part.sample({"list operand": det["items"], "form": nm, "result": repr(r)[:100]})


def part_grid(payload):
    """deterministic dtype x pair x route grid with edge values"""
    known = core.Known("C17")
    part = core.Part()
    if payload.get("temp_mixed"):
        temp_mixed(known, part)
    if payload.get("equiv_ints"):
        equiv_ints(known, part)
        width_kept(known, part)
        list_operands(known, part)
        complex_mixed(known, part)
    for dt in payload["dtypes"]:
        if dt in INT_DT:
            info = np.iinfo(dt)
            vals = [int(info.max), int(info.min), 7]
            for s in (4, 8):
                if LARGE[s] + 2 <= info.max:
                    vals += [LARGE[s] + 2, LARGE[s] - 2]
        else:
            vals = [1.5, -7.25, 1000.0]
        for pi in range(len(PAIRS)):
            for route in COPY_ROUTES:
                for v in ([vals[:3]] + [[x] for x in vals[3:]]):
                    c = {"dtype": dt, "kind": "convert", "values": v, "scalar": False, "pair": pi, "route": route}
                    for key, det in judge(c, part):
                        core.classify(known, part, key, det)
        for u in sorted(BASE):
            for route in ("in_base", "in_mks", "in_cgs"):
                c = {"dtype": dt, "kind": "base", "values": vals[:3], "scalar": False, "unit": u, "route": route}
                for key, det in judge(c, part):
                    core.classify(known, part, key, det)
    return part


def run(ctx):
    ctx.rule = (
        "deterministic grid dtype(13) x unit pair(14) x copy route(3)+in-place twin, dtype x unit(7) x base route(3)+twin with dtype "
        "limits and the documented float-exactness thresholds +-2; Hypothesis cases (dtype, pair, route or mixed-unit binary ufunc "
        "incl. in-place and out=, second dtype, values over the full dtype range). Oracle: exact Fraction conversion rounded to the "
        "float type of the input's item size (>=16 bit), dtype equality, twin agreement, warning iff beyond threshold. non-trivial = "
        "distinct (integer dtype, unit, route/op) with a factor != 1 or an offset"
    )
    ctx.assumptions = [
        "binary ufuncs may return a wider float than the operands; precision is judged at the width of the rescaled operand",
        "an 8-bit integer operand may refuse in-place conversion / mixed-unit arithmetic (no float of that size)",
        "overflow to +-inf of the prescribed float type is allowed",
        "the warning clause is asserted for to/in_units/to_value/convert_to_* (thresholds 2**24+1, 2**53+1 as documented)",
    ]
    ctx.merge(core.pmap(MOD, "part_grid", [{"dtypes": [d]} for d in INT_DT + FLT_DT] + [{"dtypes": [], "temp_mixed": True}, {"dtypes": [], "equiv_ints": True}]))
    n = ctx.pick(16000, 320000)
    ctx.merge(core.pmap(MOD, "part_random", [{"n": n // 16, "seed": ctx.seed * 1000 + i} for i in range(16)]))


def replay(ctx, data):
    d = data["detail"]
    c = d["case"] if "case" in d else d
    for key, det in judge(c, ctx):
        ctx.violation(key, det)
