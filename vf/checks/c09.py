"""C09 -- equivalence conversions are mutually inverse, pure, and match their formulas.

Generated (equivalence, from-dimension, to-dimension, intermediate, input/target units, mu/gamma,
values over +-12 decades inside each formula's domain, scalar/array, int/float) through every
entry point.  Oracles: closed-form formula in SI using the library's own constants; there-and-
back; via-intermediate == direct; all entry points agree; copying forms leave the input intact,
in-place forms give the same numbers and unit; requests outside the equivalence raise
InvalidUnitEquivalence.
"""

import math

import numpy as np
from hypothesis import strategies as st

from vf import core

MOD = "vf.checks.c09"
POOL = {
    "temperature": ["K", "R", "mK", "kK", "MK", "degC", "degF", "mdegC", "kdegC"],  # offset scales: K = value*scale + AFFINE[unit]
    "energy": ["J", "erg", "eV", "keV", "MeV", "kg*m**2/s**2", "g*cm**2/s**2", "kJ", "Ry"],
    "mass": ["kg", "g", "Msun", "me", "amu", "lb", "mg"],
    "length": ["m", "cm", "km", "angstrom", "nm", "pc", "um", "inch"],
    "rate": ["Hz", "MHz", "1/s", "1/yr", "GHz", "1/ms"],
    "spatial_frequency": ["1/m", "1/cm", "1/angstrom", "1/nm", "cm**-1"],
    "velocity": ["m/s", "km/s", "cm/s", "mile/hr", "km/hr", "pc/Myr"],
    "dimensionless": ["dimensionless", "percent", "km/m", "dimensionless", "cm/m"],
    "density": ["kg/m**3", "g/cm**3", "Msun/pc**3", "lb/ft**3", "mg/L"],
    "number_density": ["1/m**3", "cm**-3", "1/cm**3", "1/L", "pc**-3"],
    "flux": ["W/m**2", "erg/s/cm**2", "kg/s**3", "mW/cm**2", "Lsun/pc**2"],
}
SI_COHERENT = {"K", "J", "kg", "m", "Hz", "1/s", "1/m", "m/s", "dimensionless", "kg/m**3", "1/m**3", "W/m**2", "kg*m**2/s**2", "kg/s**3"}
MEMBERS = {
    "thermal": ["temperature", "energy"], "mass_energy": ["mass", "energy"], "spectral": ["length", "rate", "energy", "spatial_frequency"],
    "sound_speed": ["velocity", "temperature", "energy"], "lorentz": ["dimensionless", "velocity"], "schwarzschild": ["mass", "length"],
    "compton": ["mass", "length"], "number_density": ["density", "number_density"], "effective_temperature": ["flux", "temperature"],
}
OUTSIDE = {"thermal": "g", "mass_energy": "K", "spectral": "K", "sound_speed": "g", "lorentz": "kg", "schwarzschild": "s", "compton": "J",
           "number_density": "m", "effective_temperature": "m/s"}
AFFINE = {"degC": 273.15, "mdegC": 273.15, "kdegC": 273.15, "degF": 459.67 * 5.0 / 9.0}  # K = value*scale + this
_K = {}


def consts():
    if not _K:
        from unyt import physical_constants as pc

        _K.update(kB=float(pc.kboltz.in_mks().v), c=float(pc.clight.in_mks().v), h=float(pc.h_mks.in_mks().v), mH=float(pc.mh.in_mks().v),
                  G=float(pc.G.in_mks().v), sigma=float(pc.stefan_boltzmann_constant_mks.in_mks().v))
    return _K


def formula(eq, fd, td, x, mu, gamma):
    """SI magnitude in dimension td of SI magnitude x in dimension fd"""
    k = consts()
    kB, c, h, mH, G, sg = k["kB"], k["c"], k["h"], k["mH"], k["G"], k["sigma"]
    if fd == td:
        return x
    if eq == "thermal":
        return x * kB if td == "energy" else x / kB
    if eq == "mass_energy":
        return x * c * c if td == "energy" else x / (c * c)
    if eq == "spectral":
        E = {"energy": lambda: x, "rate": lambda: h * x, "length": lambda: h * c / x, "spatial_frequency": lambda: h * c * x}[fd]()
        return {"energy": lambda: E, "rate": lambda: E / h, "length": lambda: h * c / E, "spatial_frequency": lambda: E / (h * c)}[td]()
    if eq == "sound_speed":
        E = {"energy": lambda: x, "temperature": lambda: kB * x, "velocity": lambda: x * x * mu * mH / gamma}[fd]()
        return {"energy": lambda: E, "temperature": lambda: E / kB, "velocity": lambda: np.sqrt(gamma * E / (mu * mH))}[td]()
    if eq == "lorentz":
        if td == "dimensionless":
            b = x / c
            return 1.0 / np.sqrt(1.0 - b * b)
        return c * np.sqrt(1.0 - 1.0 / (x * x))
    if eq == "schwarzschild":
        return 2 * G * x / (c * c) if td == "length" else x * c * c / (2 * G)
    if eq == "compton":
        return h / (c * x)
    if eq == "number_density":
        return x / (mu * mH) if td == "number_density" else x * mu * mH
    if eq == "effective_temperature":
        return sg * x**4 if td == "flux" else (x / sg) ** 0.25
    raise ValueError(eq)


@st.composite
def case(draw):
    eq = draw(st.sampled_from(sorted(MEMBERS)))
    dims = MEMBERS[eq]
    fd = draw(st.sampled_from(dims))
    td = draw(st.sampled_from([d for d in dims if d != fd]))
    mid = draw(st.sampled_from(dims))
    n = draw(st.integers(1, 3))
    if eq == "lorentz":
        if fd == "velocity":
            vals = [draw(st.one_of(st.floats(1e-6, 0.999999), st.sampled_from([0.5, 0.9, 0.99, 1e-3]))) for _ in range(n)]  # beta
        else:
            vals = [draw(st.one_of(st.floats(1.000001, 1e4), st.sampled_from([1.5, 2.0, 10.0, 100.0]))) for _ in range(n)]
        expo = 0
    else:
        vals = [draw(st.floats(1.0, 9.99)) for _ in range(n)]
        expo = draw(st.integers(-12, 12)) if eq != "effective_temperature" else draw(st.integers(-6, 6))
    return {"eq": eq, "fd": fd, "td": td, "mid": mid, "fu": draw(st.sampled_from(POOL[fd])), "tu": draw(st.sampled_from(POOL[td])),
            "mu_": draw(st.sampled_from(POOL[mid])), "vals": vals, "expo": expo, "mu": draw(st.sampled_from([None, 0.6, 1.0, 1.4, 2.3, 0.25])),
            "gamma": draw(st.sampled_from([None, 5 / 3, 1.4, 1.0, 7 / 5, 3.0])), "scalar": n == 1 and draw(st.booleans()),
            "int": draw(st.integers(0, 5)) == 0, "f32": draw(st.integers(0, 4)) == 0, "array_kw": draw(st.integers(0, 5)) == 0,
            "idt": draw(st.sampled_from(["int64", "int64", "int32", "int16", "uint16", "uint32", "uint8", "int8", "uint64"])),
            "codereg": draw(st.integers(0, 3)) == 0}


def _kw(c):
    kw = {}
    if c["eq"] in ("number_density", "sound_speed") and c["mu"] is not None:
        kw["mu"] = c["mu"]
    if c["eq"] == "sound_speed" and c["gamma"] is not None:
        kw["gamma"] = c["gamma"]
    return kw


def _close(a, b, rtol, atol=0.0):
    a = np.atleast_1d(np.asarray(a, dtype=float))
    b = np.atleast_1d(np.asarray(b, dtype=float))
    if a.shape != b.shape:
        return False
    with np.errstate(all="ignore"):
        return bool(np.all(np.abs(a - b) <= rtol * np.abs(b) + 1e-300 + atol))


def judge(c, part):
    from unyt import Unit, unyt_array, unyt_quantity
    from unyt.exceptions import InvalidUnitEquivalence

    out = []
    eq, fd, td = c["eq"], c["fd"], c["td"]
    kw = _kw(c)
    mu = kw.get("mu", 0.6)
    gamma = kw.get("gamma", 5.0 / 3.0)
    part.ev()
    fu, tu = c["fu"], c["tu"]
    reg = None
    if c.get("codereg"):
        # the quantity lives in a private registry; its target is one of that registry's own symbols, spelled as a string
        import unyt.dimensions as D_
        from unyt.unit_registry import UnitRegistry

        reg = UnitRegistry()
        for nm_, sc_, dm_ in (("code_length", 3.0857e19, D_.length), ("code_mass", 1.989e40, D_.mass), ("code_time", 3.1557e13, D_.time), ("code_temperature", 2.5, D_.temperature),
                              ("code_energy", 7.0e42, D_.energy), ("code_velocity", 9.78e5, D_.velocity), ("code_density", 6.8e-20, D_.density), ("code_flux", 3.0, D_.flux),
                              ("code_rate", 4.0e-14, D_.rate), ("code_ndens", 5.0e3, D_.number_density)):
            reg.add(nm_, sc_, dm_)
        code = {"length": "code_length", "mass": "code_mass", "temperature": "code_temperature", "energy": "code_energy", "velocity": "code_velocity", "density": "code_density",
                "flux": "code_flux", "rate": "code_rate", "number_density": "code_ndens", "spatial_frequency": "1/code_length"}
        if td in code:
            tu = code[td]
        if fd in code and len(c["vals"]) > 1:
            fu = code[fd]
        part.count("quantity in a code-unit registry")
    sf, stt = float(Unit(fu, registry=reg).base_value), float(Unit(tu, registry=reg).base_value)
    of, ot = AFFINE.get(fu, 0.0), AFFINE.get(tu, 0.0)  # kelvins to add after scaling (exact definitions, not read from the library)
    if eq == "lorentz":
        if fd == "velocity":
            vals = [b * consts()["c"] / sf for b in c["vals"]]
        else:
            vals = [g / sf for g in c["vals"]]  # gamma written in a scaled dimensionless unit (percent, km/m)
    else:
        vals = [v * 10.0 ** c["expo"] for v in c["vals"]]
    if c["int"] and eq != "lorentz":
        vals = [float(max(1, int(round(v)))) for v in vals]
        idt = np.dtype(c.get("idt", "int64"))
        vals = [float(min(v, np.iinfo(idt).max // 2)) for v in vals]
        arr = np.array(vals, dtype=idt)
    elif c.get("f32") and eq != "lorentz":
        arr = np.array(vals, dtype="float32")  # some formula steps (x*x) stay in single precision: tolerance below
        vals = [float(v) for v in arr]
    else:
        arr = np.array(vals, dtype="float64")
    mk = lambda: (unyt_quantity(arr[0], fu, registry=reg) if c["scalar"] else unyt_array(arr.copy(), fu, registry=reg))  # noqa: E731
    x = mk()
    xsi = np.asarray(arr, dtype=float) * sf + of
    want_si = formula(eq, fd, td, xsi, mu, gamma)
    if not np.all(np.isfinite(want_si)) or np.any(want_si == 0) or np.any(np.abs(want_si / stt) > 1e250) or np.any(np.abs(want_si / stt) < 1e-250):
        part.count("excluded_range")
        return out
    if ot and np.any(np.abs(want_si) < 1.0):
        part.count("excluded: sub-kelvin result requested as a reading on an offset scale (cancels against the zero point)")
        return out
    rtol = 1e-11 if eq != "lorentz" else 1e-7
    f32 = arr.dtype == np.float32
    if f32:
        rtol = 5e-6  # a handful of single-precision roundings, but never an overflow to inf in a double-range result
    atol_si = 8 * rtol * (of + ot)  # a reading on an offset scale is the difference of two numbers near the zero point: absolute rounding of that size
    if fu not in SI_COHERENT or tu not in SI_COHERENT:
        part.nt((eq, fd, td, fu, tu))
    part.count(f"{eq}: {fd}->{td}")
    ctx = {"eq": eq, "from": fu, "to": tu, "values": vals, "kwargs": kw, "int": bool(c["int"])}

    def bad(key, **k2):
        d = dict(ctx)
        d.update({k: repr(v)[:160] for k, v in k2.items()})
        out.append((f"C09:{key}:{eq}:{fd}->{td}", d))

    before = (np.asarray(x).tobytes(), str(x.units), str(x.dtype))
    routes = {"to_equivalent": lambda q: q.to_equivalent(tu, eq, **kw), "to": lambda q: q.to(tu, eq, **kw),
              "in_units": lambda q: q.in_units(tu, equivalence=eq, **kw), "to_value": lambda q: q.to_value(tu, eq, **kw)}
    res = {}
    for rn, rf in routes.items():
        try:
            r = rf(x)
        except Exception as e:
            bad(f"raises:{rn}", error=f"{type(e).__name__}: {e}")
            continue
        if r is None:
            bad(f"returns-None:{rn}")
            continue
        res[rn] = r
        if (np.asarray(x).tobytes(), str(x.units), str(x.dtype)) != before:
            bad(f"copying-form-mutated-input:{rn}", now=x)
            x = mk()
        got_si = np.asarray(r, dtype=float) * stt + ot
        if not _close(got_si, want_si, rtol, atol_si):
            bad(f"formula:{rn}", got_SI=got_si.tolist() if np.ndim(got_si) else float(got_si), want_SI=np.asarray(want_si).tolist())
        if rn != "to_value":
            if r.units != Unit(tu, registry=reg) or str(r.units) != str(Unit(tu, registry=reg)):
                bad(f"result-unit:{rn}", got=r.units)
            if np.asarray(r).dtype.kind not in "fc":
                bad(f"non-float-result:{rn}", dtype=np.asarray(r).dtype)
    if "to_equivalent" not in res:
        return out
    y = res["to_equivalent"]
    for rn, r in res.items():
        if not _close(np.asarray(r), np.asarray(y), 1e-14, atol_si / stt * 1e-3):
            bad(f"entry-points-disagree:{rn}", got=r, ref=y)
    # in-place twins
    for rn, rf in {"convert_to_equivalent": lambda q: q.convert_to_equivalent(tu, eq, **kw), "convert_to_units": lambda q: q.convert_to_units(tu, equivalence=eq, **kw)}.items():
        z = unyt_array(np.array(arr, dtype="float64"), fu, registry=reg) if not c["scalar"] else unyt_quantity(float(arr[0]), fu, registry=reg)
        try:
            rf(z)
        except Exception as e:
            bad(f"raises:{rn}", error=f"{type(e).__name__}: {e}")
            continue
        if z.units != y.units or str(z.units) != str(y.units):
            bad(f"inplace-unit-differs:{rn}", inplace=z.units, copy=y.units)
        elif not _close(np.asarray(z), np.asarray(y), rtol if f32 else 1e-13, atol_si / stt):
            bad(f"inplace-numbers-differ:{rn}", inplace=z, copy=y)
    # array-valued mu / gamma broadcast against a scalar input
    if c.get("array_kw") and kw and c["scalar"]:
        k0 = sorted(kw)[0]
        kw2 = dict(kw)
        kw2[k0] = np.array([kw[k0], kw[k0] * 2.0, kw[k0] * 0.5])
        try:
            rb = mk().to_equivalent(tu, eq, **kw2)
            wants = [formula(eq, fd, td, xsi, kw2.get("mu", np.float64(mu))[i] if k0 == "mu" else mu, kw2.get("gamma", gamma)[i] if k0 == "gamma" else gamma) for i in range(3)]
            w3 = np.array([float(np.ravel(w)[0]) for w in wants])
            g3 = np.asarray(rb, dtype=float) * stt + ot
            if np.shape(rb) == () and np.all(w3 == w3[0]):
                g3 = np.full(3, float(g3))  # the keyword does not enter this direction of the formula
            if not _close(g3, w3, rtol, atol_si):
                bad(f"array-valued-keyword:{k0}", got=rb, want=[float(np.ravel(w)[0]) for w in wants])
        except Exception as e:
            bad(f"array-valued-keyword-raises:{k0}", error=f"{type(e).__name__}: {e}")
    # there and back
    try:
        back = y.to_equivalent(fu, eq, **kw)
        if back is None or not _close(np.asarray(back), np.asarray(arr, dtype=float), rtol * (10 if eq != "lorentz" else 1e3), 10 * atol_si / sf):
            bad("round-trip", back=back, x=arr.tolist())
    except Exception as e:
        bad("round-trip-raises", error=f"{type(e).__name__}: {e}")
    # via an intermediate member
    mid_ok = True
    if c["mu_"] in AFFINE and c["mid"] not in (fd, td):
        mid_ok = bool(np.all(np.abs(formula(eq, fd, c["mid"], xsi, mu, gamma)) >= 1.0))
    if c["mid"] not in (fd, td) and mid_ok:
        try:
            via = mk().to_equivalent(c["mu_"], eq, **kw).to_equivalent(tu, eq, **kw)
            if via is None or not _close(np.asarray(via), np.asarray(y), rtol * 10, 10 * atol_si / stt):
                bad(f"via-intermediate:{c['mid']}", via=via, direct=y)
        except Exception as e:
            bad(f"via-intermediate-raises:{c['mid']}", error=f"{type(e).__name__}: {e}")
    # a request the equivalence does not cover
    for rn, rf in {"to_equivalent": lambda q: q.to_equivalent(OUTSIDE[eq], eq, **kw), "to": lambda q: q.to(OUTSIDE[eq], eq, **kw),
                   "convert_to_equivalent": lambda q: q.convert_to_equivalent(OUTSIDE[eq], eq, **kw)}.items():
        q = mk().astype("float64") if c["int"] else mk()
        snap = (np.asarray(q).tobytes(), str(q.units))
        try:
            r = rf(q)
            bad(f"uncovered-request-not-refused:{rn}", got=r if r is not None else q)
        except InvalidUnitEquivalence:
            part.count("uncovered request refused with InvalidUnitEquivalence")
        except Exception as e:
            bad(f"uncovered-request-wrong-exception:{rn}", error=f"{type(e).__name__}: {e}")
        if (np.asarray(q).tobytes(), str(q.units)) != snap:
            bad(f"uncovered-request-mutated-input:{rn}", now=q)
    # a quantity whose dimension is not a member at all
    try:
        unyt_quantity(1.0, OUTSIDE[eq], registry=reg).to_equivalent(tu, eq, **kw)
        bad("non-member-input-not-refused")
    except InvalidUnitEquivalence:
        pass
    except Exception as e:
        bad("non-member-input-wrong-exception", error=f"{type(e).__name__}: {e}")
    if len(part.samples) < 1:
        part.sample({"equivalence": eq, "from": f"{vals} {fu}", "to": tu, "kwargs": kw, "result": repr(y)[:100], "formula_SI": np.asarray(want_si).tolist()})
    return out


def part_random(payload):
    known = core.Known("C09")
    part = core.Part()
    core.hyp_explore(part, known, case(), judge, payload["n"], payload["seed"], label="C09:cases")
    return part


def part_sweep(payload):
    """deterministic sweep: every (equivalence, from, to) x every unit of the pools, one value"""
    known = core.Known("C09")
    part = core.Part()
    for eq, fd, td in payload["triples"]:
        for fu in POOL[fd]:
            for tu in POOL[td]:
                mids = [d for d in MEMBERS[eq] if d not in (fd, td)]
                c = {"eq": eq, "fd": fd, "td": td, "mid": mids[0] if mids else fd, "fu": fu, "tu": tu, "mu_": POOL[mids[0]][1] if mids else fu,
                     "vals": [0.5, 0.9] if eq == "lorentz" and fd == "velocity" else [2.5, 7.0], "expo": 2, "mu": 1.4, "gamma": 1.4, "scalar": False, "int": False}
                for key, det in judge(c, part):
                    core.classify(known, part, key, det)
    return part


def run(ctx):
    triples = [(eq, a, b) for eq, dims in sorted(MEMBERS.items()) for a in dims for b in dims if a != b]
    ctx.rule = (
        f"exhaustive sweep over all {len(triples)} ordered (equivalence, from, to) pairs x every input/target unit of the per-dimension pools (5-9 units "
        "each, SI/CGS/prefixed/compound), plus Hypothesis cases (units, intermediate member, mu/gamma, values over +-12 decades inside each formula's "
        "domain, scalar/array, int/float) through to_equivalent/to/in_units/to_value/convert_to_equivalent/convert_to_units(equivalence=). "
        "non-trivial = distinct (equivalence, from, to, input unit, target unit) with a non-SI-coherent unit on at least one side"
    )
    ctx.assumptions = [
        "constants' SI magnitudes are read from unyt.physical_constants (the statement says: the library's own constants); unit scales read from the library",
        "rel tol 1e-11 (lorentz 1e-7 with beta <= 0.999999); unknown equivalence *names* are not exercised (KeyError is pinned by the existing suite)",
    ]
    ctx.exhaustive = False
    ctx.merge(core.pmap(MOD, "part_sweep", [{"triples": sh} for sh in core.shards(triples, 16)]))
    n = ctx.pick(6400, 128000)
    ctx.merge(core.pmap(MOD, "part_random", [{"n": n // 16, "seed": ctx.seed * 1000 + i} for i in range(16)]))


def replay(ctx, data):
    d = data["detail"]
    if isinstance(d, dict) and "case" in d:
        for key, det in judge(d["case"], ctx):
            ctx.violation(key, det)
    else:
        triples = [(eq, a, b) for eq, dims in sorted(MEMBERS.items()) for a in dims for b in dims if a != b]
        ctx.merge(part_sweep({"triples": [t for t in triples if t[0] == d.get("eq")]}))
