"""C05 -- Unit objects form a consistent multiplicative algebra.

Exhaustive over ordered pairs of atomic symbols (commutativity, inverse, homomorphism onto
(scale, dimvec), equality decided by scale/offset/dimension in *both* directions) and
Hypothesis-generated terms for associativity, power laws, hash, simplify/as_coeff_unit and
expression/scale/dimension synchronisation."""

import math
from fractions import Fraction as Fr

from hypothesis import strategies as st

from vf import core
from vf.gen import units as G
from vf.oracle import resolve as R
from vf.oracle import table as T

MOD = "vf.checks.c05"
EQ_TOL = 1e-12  # must compare equal below this relative scale difference
NE_TOL = 1e-6  # must compare unequal above this


def _rel(a, b):
    if a == b:
        return 0.0
    if a == 0 or b == 0 or not (math.isfinite(a) and math.isfinite(b)):
        return float("inf")
    return abs(a / b - 1)


def facts(u):
    return float(u.base_value), R.dimvec_of(u.dimensions), float(u.base_offset)


def same(a, b, tol=1e-11):
    fa, fb = facts(a), facts(b)
    return fa[1] == fb[1] and _rel(fa[0], fb[0]) <= tol and _rel(fa[2], fb[2]) <= 1e-12


def _try(fn):
    try:
        return ("ok", fn())
    except Exception as e:  # class recorded; judged by the caller
        return ("err", type(e).__name__)


# ------------------------------------------------------------------ pairs (exhaustive)
def part_pairs(payload):
    from unyt import Unit

    known = core.Known("C05")
    part = core.Part()
    names = payload["names"]
    allsyms = payload["all"]
    units = {n: Unit(n) for n in allsyms}
    one = Unit()
    for a in names:
        ua = units[a]
        sa, da, oa = facts(ua)
        # identity and inverse
        part.ev()
        r = _try(lambda: ua * one)
        if r[0] == "ok" and not (same(r[1], ua) and r[1] == ua):
            core.classify(known, part, "C05:identity", {"u": a, "got": facts(r[1])})
        r = _try(lambda: one * ua)
        if r[0] == "ok" and not (same(r[1], ua) and r[1] == ua):
            core.classify(known, part, "C05:identity-left", {"u": a, "got": facts(r[1])})
        if oa == 0 and da != T.LOG:
            inv = ua**-1
            pr = ua * inv
            if not (pr == one and facts(pr)[1] == T.ZERO and _rel(facts(pr)[0], 1.0) < 1e-12):
                core.classify(known, part, "C05:inverse", {"u": a, "got": facts(pr)})
            if not same(ua / ua, one):
                core.classify(known, part, "C05:self-division", {"u": a})
        for b in allsyms:
            ub = units[b]
            sb, db, ob = facts(ub)
            part.ev()
            if a != b:
                part.nt((a, b))
            # equality is decided by scale, offset, dimension -- both directions
            eq = ua == ub
            should_eq = da == db and _rel(sa, sb) <= EQ_TOL and _rel(oa, ob) <= EQ_TOL
            should_ne = da != db or _rel(sa, sb) > NE_TOL or (oa != ob and _rel(oa, ob) > NE_TOL)
            if should_eq and not eq:
                core.classify(known, part, "C05:eq-false-negative", {"u": a, "v": b})
            if should_ne and eq:
                core.classify(known, part, "C05:eq-false-positive", {"u": a, "v": b, "scales": [sa, sb], "offsets": [oa, ob]})
            if eq and hash(ua) != hash(ub) and str(ua.expr) == str(ub.expr):
                core.classify(known, part, "C05:hash", {"u": a, "v": b})
            r1 = _try(lambda: ua * ub)
            r2 = _try(lambda: ub * ua)
            if r1[0] != r2[0]:
                core.classify(known, part, "C05:commutativity-refusal", {"u": a, "v": b, "uv": r1[0] + ":" + str(r1[1] if r1[0] == "err" else ""), "vu": r2[0] + ":" + str(r2[1] if r2[0] == "err" else "")})
                continue
            if r1[0] == "err":
                part.count("refused (offset/log guard), both orders")
                continue
            p1, p2 = r1[1], r2[1]
            if not (p1 == p2 and same(p1, p2, 1e-14)):
                core.classify(known, part, "C05:commutativity", {"u": a, "v": b, "uv": facts(p1), "vu": facts(p2)})
            # homomorphism (offsets: only dimensionless * offset keeps an offset)
            want_s, want_d = sa * sb, T.dmul(da, db)
            fs, fd, fo = facts(p1)
            if fd != want_d or _rel(fs, want_s) > 1e-14:
                core.classify(known, part, "C05:homomorphism-mul", {"u": a, "v": b, "got": (fs, fd), "want": (want_s, want_d)})
            rd = _try(lambda: ua / ub)
            if rd[0] == "ok":
                fs, fd, fo = facts(rd[1])
                if fd != T.ddiv(da, db) or _rel(fs, sa / sb) > 1e-14:
                    core.classify(known, part, "C05:homomorphism-div", {"u": a, "v": b, "got": (fs, fd), "want": (sa / sb, T.ddiv(da, db))})
        if len(part.samples) < 2:
            rr = _try(lambda: facts(ua * ub)[0])
            part.sample({"u": a, "v": b, "scale(u*v)": rr[1], "scale(u)*scale(v)": sa * sb})
    return part


# ------------------------------------------------------------------ generated terms
def _mk(text, reg):
    from unyt import Unit

    return Unit(text, registry=reg)


def _sync(u, reg, label, out, text):
    """expression, scale and dimension of *u* must agree: re-evaluating the expression from
    scratch gives the same scale and dimension that u carries"""
    from unyt import Unit

    try:
        v = Unit(u.expr, registry=reg)
    except Exception as e:
        out.append((f"C05:desync-reeval-raises:{label}", {"term": text, "expr": str(u.expr), "error": type(e).__name__}))
        return
    fu, fv = facts(u), facts(v)
    if not math.isfinite(fv[0]) or fv[0] == 0:
        return  # per-atom power under/overflowed in float while the carried product did not
    if fu[1] != fv[1] or _rel(fu[0], fv[0]) > 1e-10:
        out.append((f"C05:desync:{label}", {"term": text, "expr": str(u.expr), "carried": fu, "re-evaluated": fv}))


def _finite(*us):
    for u in us:
        s = float(u.base_value)
        if not math.isfinite(s) or s == 0 or abs(math.log10(abs(s))) > 250:
            return False
    return True


def _case_terms(case, part):
    from unyt import Unit
    from unyt.exceptions import InvalidUnitOperation
    from unyt.unit_registry import UnitRegistry

    asts, p, q, use_float, custom = case
    out = []
    reg = None
    if custom:
        reg = UnitRegistry()
        reg.add("code_length", 3.0857e19, Unit("m").dimensions, prefixable=True)
        reg.add("code_mass", 1.989e40, Unit("kg").dimensions)
        reg.add("h", 0.7, Unit("dimensionless").dimensions)
    texts = [R.render(a) for a in asts]
    part.ev()
    try:
        u, v, w = (_mk(t, reg) for t in texts)
    except Exception as e:
        out.append((f"C05:term-rejected:{type(e).__name__}", {"terms": texts}))
        return out
    if not _finite(u, v, w):
        part.count("excluded_range")
        return out
    B = max(abs(math.log10(abs(float(x.base_value)))) for x in (u, v, w))
    if max(B * max(abs(float(p)), 1) * max(abs(float(q)), 1), 2 * B * max(abs(float(p)), 1), 3 * B) > 250:
        part.count("excluded_range")  # float under/overflow of an intermediate is not a defect
        return out
    natoms = sum(R.n_atoms(a) for a in asts)
    frac = p.denominator != 1 or q.denominator != 1
    if len({x for a in asts for x in G.atoms_of(a)}) >= 2 or frac:
        part.nt((tuple(sorted(T.dim_name(R.atom(x)[1]) for a in asts for x in G.atoms_of(a) if x in T.ROWS or R.readings(x))), p, q, use_float, custom))
    pp = float(p) if use_float else p
    qq = float(q) if use_float else q
    one = Unit(registry=reg)
    try:
        # associativity
        l, r = (u * v) * w, u * (v * w)
        if not (l == r and same(l, r)):
            out.append(("C05:associativity", {"terms": texts, "l": facts(l), "r": facts(r)}))
        l, r = (u / v) / w, u / (v * w)
        if not (l == r and same(l, r)):
            out.append(("C05:division-law", {"terms": texts, "l": facts(l), "r": facts(r)}))
        # commutativity on compounds
        if not (u * v == v * u and same(u * v, v * u)):
            out.append(("C05:commutativity-compound", {"terms": texts[:2]}))
        # identity / inverse
        if not (u * one == u and same(u / u, one) and same(u * u**-1, one)):
            out.append(("C05:identity-inverse-compound", {"term": texts[0]}))
        # power laws
        su, du, _ = facts(u)
        if su > 0:
            a, b = (u**pp) ** qq, u ** (p * q)
            if _finite(a, b):
                if not (a == b and same(a, b, 1e-9)):
                    out.append(("C05:power-of-power", {"term": texts[0], "p": str(p), "q": str(q), "float": use_float, "l": facts(a), "r": facts(b)}))
            sv = facts(v)[0]
            if sv > 0:
                a, b = (u * v) ** pp, u**pp * v**pp
                if _finite(a, b):
                    if not (a == b and same(a, b, 1e-9)):
                        out.append(("C05:power-of-product", {"terms": texts[:2], "p": str(p), "float": use_float, "l": facts(a), "r": facts(b)}))
            # homomorphism for powers
            up = u**pp
            if _finite(up):
                fs, fd, _ = facts(up)
                if fd != T.dpow(du, p) or _rel(fs, su ** float(p)) > 1e-11:
                    out.append(("C05:homomorphism-pow", {"term": texts[0], "p": str(p), "float": use_float, "got": (fs, fd), "want": (su ** float(p), T.dpow(du, p))}))
                _sync(up, reg, "pow", out, texts[0] + "**" + str(p))
                # float and rational exponents agree
                if not same(u ** float(p), u**p, 1e-12) or str((u ** float(p)).expr) != str((u**p).expr):
                    out.append(("C05:float-vs-rational-exponent", {"term": texts[0], "p": str(p)}))
        # homomorphism for products of compounds
        prod = u * v / w
        fs, fd, _ = facts(prod)
        want_s = facts(u)[0] * facts(v)[0] / facts(w)[0]
        want_d = T.ddiv(T.dmul(facts(u)[1], facts(v)[1]), facts(w)[1])
        if fd != want_d or _rel(fs, want_s) > 1e-12:
            out.append(("C05:homomorphism-compound", {"terms": texts, "got": (fs, fd), "want": (want_s, want_d)}))
        _sync(prod, reg, "mul-div", out, "*".join(texts))
        # hash: same expression, same registry state
        h1 = hash(Unit(texts[0], registry=reg))
        h2 = hash(Unit(texts[0], registry=reg))
        h3 = hash(Unit(Unit(texts[0], registry=reg).expr, registry=reg))
        if not (h1 == h2 == h3):
            out.append(("C05:hash-unstable", {"term": texts[0]}))
        if u == v and str(u.expr) == str(v.expr) and hash(u) != hash(v):
            out.append(("C05:hash-eq", {"terms": texts[:2]}))
        # the same product reached by another association / order / from its own printed expression: equal expression, equal
        # unit (scales may differ in the last bit: float products are not associative) => equal hash, findable as a dict key
        assoc = [("(u*v)*w", (u * v) * w), ("u*(v*w)", u * (v * w)), ("(w*v)*u", (w * v) * u), ("(u*w)*v", (u * w) * v)]
        try:
            assoc.append(("Unit(expr)", Unit((u * v * w).expr, registry=reg)))
        except Exception:
            pass
        n0, a0 = assoc[0]
        for nm_, a_ in assoc[1:]:
            if _finite(a0, a_) and a_.expr == a0.expr and a_ == a0 and (hash(a_) != hash(a0) or {a0: 1}.get(a_) != 1):
                out.append(("C05:hash-depends-on-association", {"terms": texts, "first": n0, "second": nm_, "scales": [repr(float(a0.base_value)), repr(float(a_.base_value))]}))
                break
        # every result belongs to the registry of its (left) operand -- also the degenerate ones (u**0, u/u)
        if reg is not None:
            for nm, r_ in (("u*v", u * v), ("u/v", u / v), ("u**p", u**pp), ("u**0", u**0), ("u/u", u / u), ("(u**0)*v", (u**0) * v), ("u**-1", u**-1),
                           ("simplify", (u * v).simplify()), ("as_coeff_unit", (u * v).simplify().as_coeff_unit()[1]), ("copy", u.copy())):
                if r_.registry is not reg and getattr(r_.registry, "lut", None) is not reg.lut:
                    out.append((f"C05:result-left-its-registry:{nm}", {"terms": texts, "p": str(p)}))
            # identity written either way hashes like the unit itself (same expression, same registry state)
            ident = u**0
            if str((ident * v).expr) == str(v.expr) == str((v * ident).expr) and not (hash(ident * v) == hash(v * ident) == hash(v)):
                out.append(("C05:hash-depends-on-identity-factor", {"term": texts[1]}))
        # simplify / as_coeff_unit on a fresh object (simplify mutates in place)
        fresh = u * v / w
        before = facts(fresh)
        simp = fresh.simplify()
        after = facts(simp)
        if before != after:
            out.append(("C05:simplify-changed-carried-values", {"terms": texts}))
        _sync(simp, reg, "simplify", out, "*".join(texts))
        coeff, cu = simp.as_coeff_unit()
        fc = facts(cu)
        if fc[1] != before[1] or _rel(float(coeff) * fc[0], before[0]) > 1e-11:
            out.append(("C05:as_coeff_unit", {"terms": texts, "coeff": float(coeff), "unit": fc, "before": before}))
        _sync(cu, reg, "as_coeff_unit", out, "*".join(texts))
        if not (simp == prod):
            out.append(("C05:simplify-not-equal", {"terms": texts}))
        if reg is not None:
            # a registry edit between two uses: what simplify()/as_coeff_unit() say must follow the current contents
            def _coeff_ok(tag):
                w_ = Unit("code_length", registry=reg) * Unit("kcode_length", registry=reg) ** 2 / Unit("cm", registry=reg) ** 3
                before_ = facts(w_)
                sw = w_.simplify()
                co, cu_ = sw.as_coeff_unit()
                fc_ = facts(cu_)
                if fc_[1] != before_[1] or _rel(float(co) * fc_[0], before_[0]) > 1e-11:
                    out.append((f"C05:as_coeff_unit-after-registry-edit:{tag}", {"coeff": float(co), "unit": fc_, "carried": before_}))
                _sync(sw, reg, f"simplify-after-registry-edit:{tag}", out, "code_length*kcode_length**2/cm**3")
            _coeff_ok("before")
            reg.modify("code_length", 7.5e18)
            _coeff_ok("modify")
            reg.remove("code_mass")
            reg.add("code_mass", 4.0e30, Unit("kg").dimensions)
            reg.add("code_length", 1.25e20, Unit("m").dimensions, prefixable=True)
            _coeff_ok("re-add")
    except InvalidUnitOperation:
        part.count("InvalidUnitOperation in compound law (offset/log unit present)")
    except Exception as e:
        import traceback

        tb = traceback.extract_tb(e.__traceback__)
        where = next((f"{f.name}:{f.lineno}" for f in reversed(tb) if "/unyt/" in f.filename), "?")
        out.append((f"C05:unexpected-exception:{type(e).__name__}", {"terms": texts, "p": str(p), "q": str(q), "float": use_float, "error": str(e)[:200], "where": where}))
    if part.evaluations % 61 == 0:
        part.sample({"u": texts[0], "v": texts[1], "w": texts[2], "p": str(p), "q": str(q), "float_exponents": use_float,
                     "custom_registry": bool(custom)})
    return out


@st.composite
def term_case(draw):
    custom = draw(st.integers(0, 4)) == 0
    asts = []
    for _ in range(3):
        a = draw(G.unit_ast(max_factors=2, mild=True, coeff=False))
        if custom and draw(st.booleans()):
            extra = ("u", draw(st.sampled_from(["code_length", "kcode_length", "code_mass", "h"])))
            e = draw(st.sampled_from([Fr(1), Fr(-1), Fr(2), Fr(-1, 2)]))
            if e != 1:
                extra = ("**", extra, e)
            a = ("*", a, extra)
        asts.append(a)
    p = draw(st.sampled_from([Fr(2), Fr(3), Fr(-1), Fr(-2), Fr(1, 2), Fr(1, 3), Fr(3, 2), Fr(2, 3), Fr(-1, 2), Fr(5, 6), Fr(1, 6), Fr(1, 4), Fr(0)]))
    q = draw(st.sampled_from([Fr(2), Fr(-1), Fr(1, 2), Fr(3), Fr(1, 3), Fr(6), Fr(-3, 2)]))
    use_float = draw(st.booleans())
    return (asts, p, q, use_float, custom)


def part_terms(payload):
    known = core.Known("C05")
    part = core.Part()
    core.hyp_explore(part, known, term_case(), _case_terms, payload["n"], payload["seed"], label="C05:terms")
    return part


def run(ctx):
    ctx.rule = (
        "exhaustive over ordered pairs of the 145 atomic symbols (identity, inverse, commutativity incl. "
        "refusals in both orders, homomorphism onto oracle (scale, dimvec), equality in both directions: must-equal "
        "below 1e-12 relative scale difference, must-differ above 1e-6 or on any dimension/offset difference); "
        "Hypothesis terms (3 compounds, rational exponents with denominators <=6 as Fraction or float, default and "
        "custom registries) for associativity, power laws, hash, simplify/as_coeff_unit and re-evaluation of the "
        "carried expression. non-trivial = distinct ordered symbol pairs + terms with >=2 distinct atoms or a "
        "fractional exponent"
    )
    ctx.assumptions = [
        "dimension vectors are read from unyt's sympy dimension expressions as data (vf.oracle.resolve.dimvec_of)",
        "units whose scale is negative (lat) are excluded from fractional powers; magnitudes beyond 1e+-250 excluded",
    ]
    syms = [s for s in G.SYMBOLS]
    ctx.merge(core.pmap(MOD, "part_pairs", [{"names": sh, "all": syms} for sh in core.shards(syms, 16)]))
    n = ctx.pick(3200, 64000)
    ctx.merge(core.pmap(MOD, "part_terms", [{"n": n // 16, "seed": ctx.seed * 1000 + i} for i in range(16)]))


def replay(ctx, data):
    d = data["detail"]
    if isinstance(d, dict) and "case" in d:
        asts, p, q, uf, custom = d["case"]
        case = ([G.ast_from_json(a) for a in asts], Fr(p), Fr(q), uf, custom)
        for key, det in _case_terms(case, ctx):
            ctx.violation(key, det)
    else:
        ctx.merge(part_pairs({"names": G.SYMBOLS, "all": G.SYMBOLS}))
