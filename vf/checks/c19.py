"""C19 -- unit-checking helpers decide by physical equality, not by spelling.

(A) allclose_units / assert_allclose_units / np.allclose / np.isclose: values are constructed
    relative to the tolerance boundary in SI (|actual - desired| = theta x (atol + rtol|desired|)
    with theta in {0, .5, .99, 1.01, 2}), so the verdict is known by construction with the
    statement's semantics (atol in its own unit, or desired's unit when bare); every case is
    repeated with actual / desired / atol re-expressed in other commensurable units.
(B) array_equal / array_equiv / assert_array_equal_units additionally require equal units.
(C) accepts / returns over every dimension in unyt.dimensions x SI / CGS / imperial spellings
    x positional / keyword / default / keyword-only / multiple-return usages with an
    instrumented wrapped function (call counter, identity of the returned object).
"""

import numpy as np
from hypothesis import strategies as st

from vf import core
from vf.oracle import resolve as R

MOD = "vf.checks.c19"
FAMS = {"length": ["m", "cm", "km", "inch", "ft", "mm"], "time": ["s", "ms", "min", "hr"], "mass": ["kg", "g", "lb", "mg"],
        "energy": ["J", "erg", "eV", "kJ", "N*m"], "velocity": ["m/s", "km/hr", "cm/s", "mile/hr"], "none": ["dimensionless", "percent", "km/m", "cm/m"]}
THETAS = [0.0, 0.5, 0.99, 1.01, 2.0, 50.0]


def scale(u):
    # the helpers are judged on their logic, not on the accuracy of the unit table (C02's subject):
    # the SI scale of each spelling is read from the library as data (cross-checked loosely against the table)
    from unyt import Unit

    s = float(Unit(u).base_value)
    assert abs(s / float(R.evaluate(_ast(u))[0]) - 1) < 1e-5, u
    return s


def _ast(u):
    # tiny parser for the fixed spellings above: products/quotients of atoms
    if "/" in u:
        a, b = u.split("/")
        return ("/", _ast(a), _ast(b))
    if "*" in u:
        a, b = u.split("*")
        return ("*", _ast(a), _ast(b))
    return ("u", u)


@st.composite
def case(draw):
    fam = draw(st.sampled_from(sorted(FAMS)))
    units = FAMS[fam]
    other_fam = draw(st.sampled_from([f for f in sorted(FAMS) if f != fam and f != "none"]))
    n = draw(st.integers(1, 3))
    c = {
        "fam": fam, "ua": draw(st.sampled_from(units)), "ud": draw(st.sampled_from(units)), "ua2": draw(st.sampled_from(units)), "ud2": draw(st.sampled_from(units)),
        "d": [draw(st.integers(1, 800)) / 8 * draw(st.sampled_from([1, -1])) for _ in range(n)],
        "rtol": draw(st.sampled_from([0.0, 1e-3, 1e-7, 0.05])), "rtol_kind": draw(st.sampled_from(["bare", "bare", "dimless-q", "percent-q", "dimensional"])),
        "atol_kind": draw(st.sampled_from(["zero", "bare", "bare", "desired-unit", "other-unit", "other-unit", "incommensurable"])),
        "atol": draw(st.integers(1, 64)) / 16, "uat": draw(st.sampled_from(units)), "uat2": draw(st.sampled_from(units)), "ubad": FAMS[other_fam][0],
        "theta": draw(st.sampled_from(THETAS)), "sign": draw(st.sampled_from([1, -1])), "scalar": n == 1 and draw(st.booleans()),
        "incomm": draw(st.integers(0, 9)) == 0, "akind": draw(st.sampled_from(["q", "q", "q", "list-of-q"])),
    }
    return c


def judge(c, part):
    import unyt
    from unyt import unyt_array, unyt_quantity
    from unyt.array import allclose_units
    from unyt.testing import assert_allclose_units, assert_array_equal_units

    out = []
    part.ev()
    ua, ud = c["ua"], c["ud"]
    sa, sd = scale(ua), scale(ud)
    d = np.array(c["d"], dtype=float)
    d_si = d * sd
    rtol = c["rtol"]
    ak = c["atol_kind"]
    if ak == "zero":
        atol_si, atol_obj = 0.0, 0.0
    elif ak == "bare":
        atol_si, atol_obj = c["atol"] * sd, c["atol"]  # the statement: bare atol is in desired's unit
    elif ak == "desired-unit":
        atol_si, atol_obj = c["atol"] * sd, unyt_quantity(c["atol"], ud)
    elif ak == "other-unit":
        atol_si, atol_obj = c["atol"] * scale(c["uat"]), unyt_quantity(c["atol"], c["uat"])
    else:
        atol_si, atol_obj = None, unyt_quantity(c["atol"], c["ubad"])
    tol_si = (atol_si or 0.0) + rtol * np.abs(d_si)
    a_si = d_si + c["sign"] * c["theta"] * tol_si
    a = a_si / sa
    if ua == ud:
        a = d + c["sign"] * c["theta"] * tol_si / sa  # no round trip through SI: identical numbers when the tolerance is zero
        a_si = np.where(tol_si == 0, d_si, a_si)
    mkq = lambda vals, u: (unyt_quantity(float(vals[0]), u) if c["scalar"] else unyt_array(np.array(vals, dtype=float), u))  # noqa: E731
    A, D = mkq(a, ua), mkq(d, ud)
    if c["akind"] == "list-of-q" and not c["scalar"]:
        A = [unyt_quantity(float(v), ua) for v in a]
    rt = {"bare": rtol, "dimless-q": unyt_quantity(rtol, "dimensionless"), "percent-q": unyt_quantity(rtol * 100, "percent"), "dimensional": unyt_quantity(rtol, "s")}[c["rtol_kind"]]
    ctx = {k: c[k] for k in ("ua", "ud", "d", "rtol", "rtol_kind", "atol_kind", "atol", "uat", "theta", "sign")}

    def bad(key, **kw):
        dd = dict(ctx)
        dd.update({k: repr(v)[:120] for k, v in kw.items()})
        out.append((f"C19:{key}", dd))

    def call(fn):
        try:
            return "ok", fn()
        except Exception as e:
            return "err", e

    # -------- incommensurable operands: refuse
    if c["incomm"] and c["fam"] != "none":
        X = mkq(a, c["ubad"])
        s1, r1 = call(lambda: allclose_units(X, D, rtol, 0.0))
        if not (s1 == "ok" and r1 is False or s1 == "err" and False):
            bad("allclose_units:incommensurable-not-refused", got=r1)
        s2, r2 = call(lambda: assert_allclose_units(X, D, rtol, 0.0))
        if not (s2 == "err" and isinstance(r2, AssertionError)):
            bad("assert_allclose_units:incommensurable-not-refused", got=r2)
        for nm, f in (("np.allclose", lambda: np.allclose(X, D)), ("np.isclose", lambda: bool(np.all(np.isclose(X, D)))), ("np.array_equal", lambda: np.array_equal(X, D))):
            s3, r3 = call(f)
            if s3 == "ok" and r3 is not False and r3 is not np.False_ and bool(r3):
                bad(f"{nm}:incommensurable-accepted", got=r3)
        part.nt(("incommensurable", c["fam"], c["ubad"]))
        return out
    # -------- dimensional rtol must raise RuntimeError
    if c["rtol_kind"] == "dimensional":
        s1, r1 = call(lambda: allclose_units(A, D, rt, atol_obj if ak != "incommensurable" else 0.0))
        if not (s1 == "err" and isinstance(r1, RuntimeError)):
            bad("allclose_units:dimensional-rtol-accepted", got=r1)
        return out
    # -------- incommensurable atol: refuse
    if ak == "incommensurable":
        s1, r1 = call(lambda: allclose_units(A, D, rt, atol_obj))
        if not (s1 == "ok" and r1 is False or s1 == "err"):
            bad("allclose_units:incommensurable-atol-accepted", got=r1)
        return out
    if np.all(tol_si == 0) and not (ua == ud):
        part.count("zero tolerance across different units: exact equality not judged (conversion rounding)")
        return out
    if np.any(tol_si == 0) and c["theta"] not in (0.0,) and not np.all(tol_si == 0):
        pass
    if np.any((tol_si > 0) & (tol_si < 1e-6 * np.abs(d_si))) and rtol == 0:
        part.count("tolerance below the floating-point resolution of the values: boundary not representable, skipped")
        return out
    want = bool(c["theta"] <= 1.0) if np.all(tol_si > 0) else bool(np.all(a_si == d_si))
    flip = c["theta"] in (0.99, 1.01) and ua != ud
    if flip:
        part.nt((c["fam"], ua, ud, ak, c["theta"]))
    part.count(f"atol {ak}")
    cls = f"atol={ak}:{'same' if ua == ud else 'different'}-units" + (":rtol-in-percent" if c["rtol_kind"] == "percent-q" else "")

    s1, r1 = call(lambda: allclose_units(A, D, rt, atol_obj))
    if s1 == "err":
        bad(f"allclose_units:raises:{cls}", error=r1)
    elif bool(r1) != want:
        bad(f"allclose_units:wrong-verdict:{cls}", got=r1, want=want)
    s2, r2 = call(lambda: assert_allclose_units(A, D, rt, atol_obj))
    got2 = s2 == "ok"
    if s2 == "err" and not isinstance(r2, AssertionError):
        bad(f"assert_allclose_units:wrong-exception:{cls}", error=r2)
    elif got2 != want:
        bad(f"assert_allclose_units:wrong-verdict:{cls}", got=got2, want=want)
    # re-expression must not change the verdict
    A2 = mkq(a_si / scale(c["ua2"]), c["ua2"])
    D2 = mkq(d_si / scale(c["ud2"]), c["ud2"])
    at2 = atol_obj
    if ak in ("desired-unit", "other-unit"):
        at2 = unyt_quantity(atol_si / scale(c["uat2"]), c["uat2"])
    elif ak == "bare":
        at2 = atol_si / scale(c["ud2"])  # still bare: in the (new) desired unit
    s3, r3 = call(lambda: allclose_units(A2, D2, rt, at2))
    if s3 == "ok" and s1 == "ok" and bool(r3) != bool(r1) and np.all(tol_si > 0):
        bad(f"allclose_units:verdict-depends-on-units:{cls}", first=r1, second=r3, units2=(c["ua2"], c["ud2"], c["uat2"]))
    # NumPy spellings (atol = 0 only: a bare NumPy atol has no stated unit)
    if ak == "zero" and c["rtol_kind"] == "bare" and np.all(tol_si > 0) and c["akind"] == "q":
        for nm, f in (("np.allclose", lambda: bool(np.allclose(A, D, rtol=rtol, atol=0))), ("np.isclose", lambda: bool(np.all(np.isclose(A, D, rtol=rtol, atol=0))))):
            s4, r4 = call(f)
            if s4 == "err":
                bad(f"{nm}:raises-on-commensurable", error=r4)
            elif r4 != want:
                bad(f"{nm}:wrong-verdict:{'same' if ua == ud else 'different'}-units", got=r4, want=want)
    # ---- (B) array_equal family: physically equal but differently spelled is NOT equal; same unit + same values is
    if c["akind"] == "q":
        Dsame = mkq(d, ud)
        Dconv = mkq(d_si / sa, ua)
        for nm, f, raising in (("np.array_equal", lambda x, y: bool(np.array_equal(x, y)), False), ("np.array_equiv", lambda x, y: bool(np.array_equiv(x, y)), False),
                               ("assert_array_equal_units", lambda x, y: assert_array_equal_units(x, y), True)):
            part.ev()
            s5, r5 = call(lambda: f(D, Dsame))
            ok_same = (s5 == "ok") if raising else (s5 == "ok" and r5 is True)
            if not ok_same:
                bad(f"{nm}:equal-arrays-rejected", got=r5)
            if ua != ud and scale(ua) != scale(ud):
                s6, r6 = call(lambda: f(D, Dconv))
                accepted = (s6 == "ok") if raising else (s6 == "ok" and bool(r6))
                if accepted:
                    bad(f"{nm}:different-units-accepted", x=D, y=Dconv)
                else:
                    part.nt((nm, ua, ud))
            D3 = mkq(d + 1.0, ud)
            s7, r7 = call(lambda: f(D, D3))
            accepted = (s7 == "ok") if raising else (s7 == "ok" and bool(r7))
            if accepted:
                bad(f"{nm}:different-values-accepted")
    if len(part.samples) < 2:
        part.sample({"actual": repr(A)[:80], "desired": repr(D)[:80], "rtol": rtol, "atol": repr(atol_obj), "theta": c["theta"], "expected": want, "allclose_units": repr(r1)})
    return out


def part_random(payload):
    known = core.Known("C19")
    part = core.Part()
    core.hyp_explore(part, known, case(), judge, payload["n"], payload["seed"], label="C19:allclose")
    return part


# ------------------------------------------------------------------ decorators
def part_decorators(payload):
    import sympy
    import unyt
    import unyt.dimensions as D
    from unyt import unyt_quantity
    from unyt.dimensions import accepts, returns
    from unyt.unit_systems import mks_unit_system

    known = core.Known("C19")
    part = core.Part()
    dims = {n: v for n, v in vars(D).items() if isinstance(v, sympy.Basic) and not n.startswith("_") and n not in ("dimensionless",)}
    names = sorted(dims)[payload["lo"]::payload["step"]]
    allnames = sorted(dims)
    if payload["lo"] == 0:
        # the dimensionless dimension: pure numbers pass whether or not they are wrapped (bare float / int / NumPy scalar / ndarray,
        # quantities in dimensionless, percent, km/m), anything dimensional is refused -- for accepts and for every slot of returns
        import numpy as _np

        pure = [("bare float", 0.25), ("bare int", 3), ("np.float64", _np.float64(0.5)), ("np.int32", _np.int32(2)), ("bare ndarray", _np.array([0.5, 2.0])), ("0-d ndarray", _np.array(1.5)),
                ("dimensionless quantity", unyt_quantity(0.25, "dimensionless")), ("percent", unyt_quantity(25.0, "percent")), ("km/m", unyt.unyt_array([1.0, 2.0], "km/m")),
                ("rad/rad ratio", unyt_quantity(1.0, "m") / unyt_quantity(2.0, "cm"))]
        dimensional = [("m", unyt_quantity(1.0, "m")), ("rad", unyt_quantity(1.0, "rad")), ("K", unyt.unyt_array([1.0], "K"))]
        ncalls = {"n": 0}

        @accepts(x=D.dimensionless)
        def g_acc(x, y=None):
            ncalls["n"] += 1
            return "ran"

        @accepts(y=D.dimensionless)
        def g_kw(x, y=1.0):
            ncalls["n"] += 1
            return "ran"

        for label, val in pure + dimensional:
            should = (label, val) in pure
            for un, call_ in (("accepts(dimensionless):positional", lambda: g_acc(val)), ("accepts(dimensionless):keyword", lambda: g_kw(0, y=val)),
                              ("returns(dimensionless)", lambda: returns(D.dimensionless)(lambda: val)()), ("returns(length, dimensionless)", lambda: returns(D.length, D.dimensionless)(lambda: (unyt_quantity(1.0, "m"), val))()),
                              ("returns(r_unit=dimensionless)", lambda: returns(r_unit=D.dimensionless)(lambda: val)())):
                part.ev()
                ncalls["n"] = 0
                try:
                    call_()
                    passed = True
                except TypeError:
                    passed = False
                except Exception as e:
                    core.classify(known, part, f"C19:accepts:wrong-exception:{un}:{label}", {"error": f"{type(e).__name__}: {e}"[:160]})
                    continue
                if passed != should:
                    core.classify(known, part, f"C19:{'accepts' if un.startswith('accepts') else 'returns'}:{'let-through' if passed else 'refused'}:dimensionless-spec:{un}", {"value": label})
                elif un.startswith("accepts") and not passed and ncalls["n"]:
                    core.classify(known, part, f"C19:accepts:function-called-before-refusal:dimensionless-spec:{un}", {"value": label})
                else:
                    part.nt(("dimensionless-spec", un, label, passed))
    for name in names:
        dim = dims[name]
        try:
            si = mks_unit_system[dim]
        except Exception:
            continue
        spell = []
        q0 = unyt_quantity(2.0, si)
        spell.append(q0)
        for sysn in ("cgs", "imperial", "galactic"):
            try:
                alt = q0.in_base(sysn)
                if alt.units.dimensions == dim:  # the Gaussian counterpart of an SI electromagnetic unit is another dimension
                    spell.append(alt)
            except Exception:
                pass
        spell.append(unyt.unyt_array([1.0, 2.0], si) * 1000)
        try:
            spell.append(q0.to(str(si)))
        except Exception:
            pass
        # a quantity of another dimension
        other = next(n for n in allnames[::-1] if dims[n] != dim and dims[n] != 1)
        try:
            wrong = unyt_quantity(3.0, mks_unit_system[dims[other]])
        except Exception:
            wrong = unyt_quantity(3.0, "kg" if dim != D.mass else "s")
        if wrong.units.dimensions == dim:
            wrong = unyt_quantity(3.0, "kg" if dim != D.mass else "s")
        calls = {"n": 0}

        def fresh():
            calls["n"] = 0

        @accepts(a=dim, b=dim)
        def f_pos(a, b, c=None):
            calls["n"] += 1
            return "ran"

        @accepts(a=dim)
        def f_default(x, a=spell[0]):
            calls["n"] += 1
            return "ran"

        @accepts(a=dim, k=dim)
        def f_kwonly(a, *, k):
            calls["n"] += 1
            return "ran"

        @accepts(a=dim)
        def f_varargs(a, *rest, **kw):
            calls["n"] += 1
            return "ran"

        @accepts(a=dim, k=dim)
        def f_catchall(a, **opts):
            calls["n"] += 1
            return "ran"

        @accepts(k=dim)
        def f_only_catchall(*args, **opts):
            calls["n"] += 1
            return "ran"

        # the two decorators used together, in either order, and accepts applied twice (one parameter each)
        @accepts(a=dim, b=dim)
        @returns(dim)
        def f_acc_over_ret(a, b):
            calls["n"] += 1
            return a

        @returns(dim)
        @accepts(a=dim, b=dim)
        def f_ret_over_acc(a, b):
            calls["n"] += 1
            return a

        @accepts(a=dim)
        @accepts(b=dim)
        def f_acc_twice(a, b):
            calls["n"] += 1
            return "ran"

        stacked = []
        for q in spell[:3]:
            for sn, sf in (("accepts-over-returns", f_acc_over_ret), ("returns-over-accepts", f_ret_over_acc), ("accepts-twice", f_acc_twice)):
                stacked += [(f"{sn}:positional", lambda q=q, sf=sf: sf(q, q), True), (f"{sn}:keyword", lambda q=q, sf=sf: sf(a=q, b=q), True),
                            (f"{sn}:wrong-first-positional", lambda q=q, sf=sf: sf(wrong, q), False), (f"{sn}:wrong-second-positional", lambda q=q, sf=sf: sf(q, wrong), False),
                            (f"{sn}:wrong-keyword", lambda q=q, sf=sf: sf(a=q, b=wrong), False), (f"{sn}:wrong-mixed", lambda q=q, sf=sf: sf(q, b=wrong), False)]
        for un, fn, should_pass in stacked:
            part.ev()
            fresh()
            try:
                fn()
                passed = True
            except TypeError:
                passed = False
            except Exception as e:
                core.classify(known, part, f"C19:accepts:wrong-exception:{un}", {"dimension": name, "error": f"{type(e).__name__}: {e}"[:160]})
                continue
            if passed != should_pass:
                core.classify(known, part, f"C19:accepts:{'let-through' if passed else 'refused'}:stacked:{un}", {"dimension": name, "unit": str(si)})
            elif not passed and calls["n"]:
                core.classify(known, part, f"C19:accepts:function-called-before-refusal:stacked:{un}", {"dimension": name})
            elif passed and calls["n"] != 1:
                core.classify(known, part, f"C19:accepts:function-not-called-exactly-once:stacked:{un}", {"dimension": name, "calls": calls["n"]})
            else:
                part.nt(("accepts-stacked", name, un, passed))

        usages = []
        for q in spell[:2]:
            usages += [("catch-all-kwargs", lambda q=q: f_catchall(q, k=q), True), ("catch-all-kwargs-wrong", lambda q=q: f_catchall(q, k=wrong), False), ("catch-all-kwargs-wrong-first", lambda q=q: f_catchall(wrong, k=q), False),
                       ("catch-all-kwargs-unchecked-extra", lambda q=q: f_catchall(q, k=q, other=wrong), True), ("only-catch-all", lambda q=q: f_only_catchall(1, 2, k=q), True),
                       ("only-catch-all-wrong", lambda q=q: f_only_catchall(1, k=wrong), False)]
        for q in spell:
            usages += [
                ("positional", lambda q=q: f_pos(q, q), True), ("keyword", lambda q=q: f_pos(a=q, b=q), True), ("mixed", lambda q=q: f_pos(q, b=q), True),
                ("wrong-first-positional", lambda q=q: f_pos(wrong, q), False), ("wrong-second-positional", lambda q=q: f_pos(q, wrong), False),
                ("wrong-keyword", lambda q=q: f_pos(a=q, b=wrong), False), ("wrong-mixed", lambda q=q: f_pos(q, b=wrong), False),
                ("default-used", lambda q=q: f_default(1), True), ("default-overridden", lambda q=q: f_default(1, q), True),
                ("default-overridden-wrong", lambda q=q: f_default(1, wrong), False), ("default-overridden-wrong-kw", lambda q=q: f_default(1, a=wrong), False),
                ("kwonly", lambda q=q: f_kwonly(q, k=q), True), ("kwonly-wrong", lambda q=q: f_kwonly(q, k=wrong), False), ("kwonly-wrong-first", lambda q=q: f_kwonly(wrong, k=q), False),
                ("varargs", lambda q=q: f_varargs(q, 1, 2, z=3), True), ("varargs-wrong", lambda q=q: f_varargs(wrong, 1, z=3), False),
                ("bare-number", lambda q=q: f_pos(2.0, q), dim == 1),
            ]
        for un, fn, should_pass in usages:
            part.ev()
            fresh()
            try:
                r = fn()
                passed = True
            except TypeError:
                passed = False
            except Exception as e:
                core.classify(known, part, f"C19:accepts:wrong-exception:{un}", {"dimension": name, "error": f"{type(e).__name__}: {e}"[:160]})
                continue
            if passed != should_pass:
                core.classify(known, part, f"C19:accepts:{'let-through' if passed else 'refused'}:{un}", {"dimension": name, "unit": str(si)})
            elif not passed and calls["n"]:
                core.classify(known, part, f"C19:accepts:function-called-before-refusal:{un}", {"dimension": name})
            elif passed and (calls["n"] != 1 or r != "ran"):
                core.classify(known, part, f"C19:accepts:function-not-called-exactly-once:{un}", {"dimension": name, "calls": calls["n"]})
            else:
                part.nt(("accepts", name, un, passed))
        # returns
        for q in spell:
            token = q

            @returns(dim)
            def g1():
                return token

            @returns(dim, dim)
            def g2():
                return token, token

            @returns(dim, dim)
            def g2bad():
                return token, wrong

            @returns(dim)
            def g1bad():
                return wrong

            for un, fn, should_pass in (("single", g1, True), ("tuple", g2, True), ("tuple-second-wrong", g2bad, False), ("single-wrong", g1bad, False)):
                part.ev()
                try:
                    r = fn()
                    passed = True
                except TypeError:
                    passed = False
                except Exception as e:
                    core.classify(known, part, f"C19:returns:wrong-exception:{un}", {"dimension": name, "error": f"{type(e).__name__}: {e}"[:160]})
                    continue
                if passed != should_pass:
                    core.classify(known, part, f"C19:returns:{'let-through' if passed else 'refused'}:{un}", {"dimension": name, "value": repr(q)[:80]})
                elif passed and not (r is token or (isinstance(r, tuple) and all(x is token for x in r))):
                    core.classify(known, part, f"C19:returns:result-altered:{un}", {"dimension": name})
                else:
                    part.nt(("returns", name, un, passed))
        # histories on ONE decorated function whose slots have different dimensions: a valid call first, then the same
        # units in the wrong slots, then valid again (the verdict depends on the call, not on what passed earlier)
        wdim = wrong.units.dimensions
        box = {"ret": None}

        @returns(dim, wdim)
        def h_ret():
            calls["n"] += 1
            return box["ret"]

        @accepts(a=dim, b=wdim)
        def h_acc(a, b):
            calls["n"] += 1
            return "ran"

        for q in spell[:3]:
            seq = [((q, wrong), True), ((wrong, q), False), ((q, q), False), ((q, wrong), True), ((wrong, wrong), False), ((wrong, q), False), ((q, wrong), True)]
            for kind in ("returns", "accepts"):
                for step, (pair, should_pass) in enumerate(seq):
                    part.ev()
                    fresh()
                    box["ret"] = pair
                    try:
                        r = h_ret() if kind == "returns" else h_acc(*pair)
                        passed = True
                    except TypeError:
                        passed = False
                    except Exception as e:
                        core.classify(known, part, f"C19:{kind}:wrong-exception:history", {"dimension": name, "error": f"{type(e).__name__}: {e}"[:160]})
                        continue
                    un = f"history-step{step}:{'swapped-slots' if not should_pass else 'valid'}"
                    if passed != should_pass:
                        core.classify(known, part, f"C19:{kind}:{'let-through' if passed else 'refused'}:history:{'swapped-slots' if not should_pass else 'valid'}",
                                      {"dimension": name, "other_dimension": str(wdim), "step": step, "call": [str(x.units) for x in pair], "earlier_calls": [[str(x.units) for x in p_] for p_, _ in seq[:step]]})
                    elif kind == "accepts" and not passed and calls["n"]:
                        core.classify(known, part, "C19:accepts:function-called-before-refusal:history", {"dimension": name})
                    elif kind == "returns" and passed and r is not pair:
                        core.classify(known, part, "C19:returns:result-altered:history", {"dimension": name})
                    else:
                        part.nt((kind, name, un))
        if len(part.samples) < 1:
            part.sample({"dimension": name, "spellings": [str(q.units) for q in spell], "wrong": str(wrong.units)})
    return part



# ------------------------------------------------------------------ same spelling, different unit
def part_same_spelling(payload):
    """Two quantities whose units are *spelled* alike but are not the same unit: the symbol was re-scaled between their creation
    (same registry object), or the two registries define it differently.  Every helper must decide by the physics: by the scale
    each unit object carries (units created before an edit keep their value), never by the text."""
    import itertools

    from unyt import Unit, unyt_array, unyt_quantity
    from unyt.array import allclose_units
    from unyt.dimensions import length, time
    from unyt.testing import assert_allclose_units, assert_array_equal_units
    from unyt.unit_registry import UnitRegistry

    known = core.Known("C19")
    part = core.Part()

    def verdict(fn):
        try:
            r = fn()
        except AssertionError:
            return "refused"
        except Exception as e:
            return "raised:" + type(e).__name__
        if r is None:
            return "accepted"
        return "accepted" if bool(np.all(r)) else "refused"

    def scenarios():
        for s1, s2, sym, compound in itertools.product((1.0, 4.0), (2.0, 0.5), ("vfl", "code_length"), ("{}", "{}/s", "k{}", "{}**2")):
            # (a) one registry, symbol re-scaled between the two constructions
            reg = UnitRegistry()
            reg.add(sym, s1, length, prefixable=True)
            spell = compound.format(sym)
            yield "modified-in-between", spell, reg, reg, (lambda r=reg, y=sym, v=s2: r.modify(y, v))
            # (b) removed and re-added
            reg = UnitRegistry()
            reg.add(sym, s1, length, prefixable=True)
            yield "removed-and-re-added", spell, reg, reg, (lambda r=reg, y=sym, v=s2: (r.remove(y), r.add(y, v, length, prefixable=True)))
            # (c) two registries
            r1, r2 = UnitRegistry(), UnitRegistry()
            r1.add(sym, s1, length, prefixable=True)
            r2.add(sym, s2, length, prefixable=True)
            yield "two-registries", spell, r1, r2, (lambda: None)

    for how, spell, r1, r2, edit in scenarios():
        for via in ("string", "unit-object"):
            for scalar in (False, True):
                mk = (lambda v, u, r: unyt_quantity(v[0], u, registry=r)) if scalar else (lambda v, u, r: unyt_array(np.array(v), u, registry=r))
                vals = [1.5, 3.0, -0.75]
                u_old = Unit(spell, registry=r1) if via == "unit-object" else spell
                old = mk(vals, u_old, r1)
                f_old = float(old.units.base_value)
                edit()
                u_new = Unit(spell, registry=r2) if via == "unit-object" else spell
                new_same_numbers = mk(vals, u_new, r2)
                f_new = float(new_same_numbers.units.base_value)
                if f_old == f_new or str(old.units) != str(new_same_numbers.units):
                    part.count("scenario did not produce two same-spelled different units")
                    continue
                ratio = f_old / f_new  # exactly a power of two here
                new_same_physics = mk([v * ratio for v in vals], u_new, r2)
                det = {"how": how, "spelling": spell, "via": via, "scalar": scalar, "scale_old": f_old, "scale_new": f_new}
                closeness = (
                    ("allclose_units", lambda x, y: allclose_units(x, y, 1e-9)), ("assert_allclose_units", lambda x, y: assert_allclose_units(x, y, 1e-9)),
                    ("np.allclose", lambda x, y: np.allclose(x, y, rtol=1e-9, atol=0)), ("np.isclose", lambda x, y: np.isclose(x, y, rtol=1e-9, atol=0)),
                )
                for nm, f in closeness:
                    for order, (x, y) in (("old,new", (old, new_same_numbers)), ("new,old", (new_same_numbers, old))):
                        part.ev()
                        part.nt(("same-spelling", how, spell, via, scalar, nm, order, "same-numbers"))
                        v = verdict(lambda: f(x, y))
                        if v == "accepted":
                            core.classify(known, part, f"C19:{nm}:decides-by-spelling:same-numbers-different-unit-accepted", dict(det, order=order, x=repr(x)[:80], y=repr(y)[:80]))
                    for order, (x, y) in (("old,new", (old, new_same_physics)), ("new,old", (new_same_physics, old))):
                        part.ev()
                        part.nt(("same-spelling", how, spell, via, scalar, nm, order, "same-physics"))
                        v = verdict(lambda: f(x, y))
                        if v != "accepted":
                            core.classify(known, part, f"C19:{nm}:decides-by-spelling:same-quantity-refused", dict(det, order=order, verdict=v, x=repr(x)[:80], y=repr(y)[:80]))
                equality = (
                    ("np.array_equal", lambda x, y: np.array_equal(x, y)), ("np.array_equiv", lambda x, y: np.array_equiv(x, y)),
                    ("assert_array_equal_units", lambda x, y: assert_array_equal_units(x, y)),
                )
                for nm, f in equality:
                    for order, (x, y) in (("old,new", (old, new_same_numbers)), ("new,old", (new_same_numbers, old))):
                        part.ev()
                        part.nt(("same-spelling", how, spell, via, scalar, nm, order))
                        v = verdict(lambda: f(x, y))
                        if v == "accepted":
                            core.classify(known, part, f"C19:{nm}:decides-by-spelling:unequal-units-accepted", dict(det, order=order, x=repr(x)[:80], y=repr(y)[:80]))
                    # control: a twin built the same way as `new` is equal to it
                    twin = mk(vals, u_new, r2)
                    part.ev()
                    if verdict(lambda: f(new_same_numbers, twin)) != "accepted":
                        core.classify(known, part, f"C19:{nm}:equal-arrays-rejected:after-registry-edit", dict(det))
                if len(part.samples) < 2:
                    part.sample({"scenario": how, "old": repr(old)[:60], "old_scale": f_old, "new": repr(new_same_numbers)[:60], "new_scale": f_new,
                                 "allclose_units(old,new)": verdict(lambda: allclose_units(old, new_same_numbers, 1e-9))})
    return part

def run(ctx):
    ctx.rule = (
        "Hypothesis cases for the closeness helpers: (actual, desired) in 6 unit families x units, values placed at theta x tolerance from the boundary "
        "(theta in 0, .5, .99, 1.01, 2, 50), rtol bare / dimensionless quantity / percent / dimensional, atol zero / bare / desired's unit / other "
        "commensurable unit / incommensurable, scalar / array / list of quantities, each repeated with all three re-expressed; incommensurable pairs; "
        "array_equal family; exhaustive decorators: every dimension in unyt.dimensions x SI/CGS/imperial/galactic spellings x 17 accepts usages "
        "(positional, keyword, mixed, default, keyword-only, varargs, wrong at each position) and 4 returns usages with call counter and identity of "
        "the returned object. non-trivial = boundary cases (theta .99/1.01) with actual and desired in different units; array_equal cases with "
        "physically equal but differently spelled operands; every (dimension, usage) of the decorators; plus a deterministic grid of same-spelled but "
        "different units (symbol re-scaled / removed and re-added between two constructions in one registry, two registries) x 4 spellings x string / "
        "Unit-object construction x scalar / array x 7 helpers x both argument orders"
    )
    ctx.assumptions = [
        "the statement's semantics: atol in its own unit, or the desired value's unit when bare; verdicts are computed on SI magnitudes from the independent table",
        "np.allclose/np.isclose are exercised with atol=0 only (a bare NumPy atol has no stated unit); a raise counts as refusal for the NumPy spellings",
        "exact equality across different units with zero tolerance is not judged (conversion rounding)",
    ]
    n = ctx.pick(9600, 160000)
    ctx.merge(core.pmap(MOD, "part_random", [{"n": n // 16, "seed": ctx.seed * 1000 + i} for i in range(16)]))
    ctx.merge(core.pmap(MOD, "part_decorators", [{"lo": i, "step": 16} for i in range(16)]))
    ctx.merge(core.pmap(MOD, "part_same_spelling", [{}]))


def replay(ctx, data):
    d = data["detail"]
    if isinstance(d, dict) and "case" in d:
        for key, det in judge(d["case"], ctx):
            ctx.violation(key, det)
    else:
        ctx.merge(part_decorators({"lo": 0, "step": 1}))
