"""C07 -- NumPy functions propagate units covariantly and never drop them silently.

Metamorphic: every catalogue template is evaluated under two coherent unit assignments of the
*same physical data* -- (a) power-of-64 custom-registry units, where covariance must hold bit
for bit, (b) ordinary units (m/cm, s/ms) with tolerance.  A unit-carrying result must denote
the same SI magnitudes and dimension under both assignments, a bare result must be
numerically unchanged, and a result may not carry units under one assignment and none under
the other.  Type clause: templates flagged K must return unyt objects whose dimension is that
of their input.  No per-function expected unit is needed: a handler that labels a contraction,
a determinant or an index array with the wrong unit fails covariance for every input.
"""

import re as _re

import numpy as np
from hypothesis import strategies as st

from vf import core
from vf.catalog import numpy_calls as C
from vf.oracle import resolve as R
from vf.oracle import table as T

MOD = "vf.checks.c07"
CANDS = [k / 8 for k in range(-160, 161) if k != 0]
data_seed = st.lists(st.sampled_from(CANDS), min_size=288, max_size=288, unique=True)

_REG = None


def registry():
    global _REG
    if _REG is None:
        from unyt.unit_registry import UnitRegistry
        import unyt.dimensions as D

        _REG = UnitRegistry()
        _REG.add("La", 64.0, D.length)
        _REG.add("Lb", 1 / 64.0, D.length)
        _REG.add("Ta", 64.0, D.time)
        _REG.add("Tb", 1 / 64.0, D.time)
        _REG.add("Lc", 4096.0, D.length)
    return _REG


_REG2 = None


def registry2():
    """same symbols as registry() but La has another size: results must not depend on which registry was used first"""
    global _REG2
    if _REG2 is None:
        from unyt.unit_registry import UnitRegistry
        import unyt.dimensions as D

        _REG2 = UnitRegistry()
        _REG2.add("La", 4096.0, D.length)
        _REG2.add("Lb", 1 / 64.0, D.length)
        _REG2.add("Ta", 1 / 4096.0, D.time)
        _REG2.add("Tb", 1 / 64.0, D.time)
        _REG2.add("Lc", 64.0, D.length)
    return _REG2


# (label, exact?, {role: (unit, multiplier applied to the stored numbers)} x 2, registry selector)
G_ = ("rad", 1.0)
ASSIGN = [
    ("dyadic", True, {"A": ("La", 1.0), "A2": ("Lc", 1 / 64.0), "B": ("Ta", 1.0), "G": G_, "I": ("1/Lb", 1.0)},
     {"A": ("Lb", 4096.0), "A2": ("La", 1.0), "B": ("Tb", 4096.0), "G": G_, "I": ("1/La", 4096.0)}, 1),
    ("dyadic-A-only", True, {"A": ("La", 1.0), "A2": ("Lc", 1 / 64.0), "B": ("Ta", 1.0), "G": G_, "I": ("1/Lb", 1.0)},
     {"A": ("Lb", 4096.0), "A2": ("Lc", 1 / 64.0), "B": ("Ta", 1.0), "G": G_, "I": ("1/Lb", 1.0)}, 1),
    ("dyadic-second-registry", True, {"A": ("La", 1.0), "A2": ("Lc", 64.0), "B": ("Ta", 1.0), "G": G_, "I": ("1/Lb", 1.0)},
     {"A": ("Lb", 262144.0), "A2": ("La", 1.0), "B": ("Tb", 1 / 64.0), "G": G_, "I": ("1/La", 262144.0)}, 2),
    ("ordinary", False, {"A": ("m", 1.0), "A2": ("km", 1e-3), "B": ("s", 1.0), "G": G_, "I": ("1/cm", 1.0)},
     {"A": ("cm", 100.0), "A2": ("inch", 1 / 0.0254), "B": ("ms", 1000.0), "G": G_, "I": ("1/m", 100.0)}, 0),
]


KINDS = ("plain", "strided", "float32", "fortran", "nonfinite", "readonly")


def make_wrap(assign, shared, custom, kind="plain"):
    from unyt import unyt_array, unyt_quantity
    from vf.checks.c06 import layout

    reg = {0: None, 1: registry(), 2: registry2()}[custom]

    def w(x, role):
        if shared and role == "B":
            role = "A"
        u, mult = assign[role]
        x = x * mult
        if kind == "float32":
            x = x.astype("float32")
        x = layout(x, kind)
        if x.shape == ():
            return unyt_quantity(x, u, registry=reg)
        return unyt_array(x, u, registry=reg)

    return w


def leaf_facts(x):
    """(kind, SI magnitudes or raw values, dimvec)"""
    if hasattr(x, "units") and isinstance(x, np.ndarray):
        return "unyt", np.asarray(x.view(np.ndarray)) * float(x.units.base_value), R.dimvec_of(x.units.dimensions)
    if isinstance(x, (str, bytes, type(None))):
        return "other", x, None
    try:
        arr = np.asarray(x)
    except Exception:
        return "other", repr(x), None
    if arr.dtype == object:
        return "other", repr(x), None
    return "bare", arr, None


def same_numbers(a, b, exact, raw=None):
    a = np.asarray(a)
    b = np.asarray(b)
    if a.shape != b.shape:
        return False
    if raw is not None:
        if np.asarray(raw[0]).dtype != np.asarray(raw[1]).dtype:
            # one assignment went through double precision (a Python-float coefficient widens float32 data; widths are C17's
            # subject): the two results can only agree to single precision
            fa, fb = a.astype(complex), b.astype(complex)
            with np.errstate(all="ignore"):
                scale = np.maximum(np.abs(fa), np.abs(fb))
                big = float(np.nanmax(scale)) if scale.size and np.isfinite(scale).any() else 0.0
                return bool(np.all((np.abs(fa - fb) <= 4e-6 * np.maximum(scale, big * 1e-3)) | ~np.isfinite(fa) | ~np.isfinite(fb)))
        # single-precision operands: positions where either stored number left the normal float32 range are not judged
        # (the two assignments differ by 2**12 .. 2**18 per power of length, so one of them can over/underflow alone)
        with np.errstate(all="ignore"):
            bad = np.zeros(a.shape, bool)
            for r in raw:
                r = np.abs(np.asarray(r).astype(complex))
                bad |= (r > 1e37) | (r < 1e-37) | ~np.isfinite(r)
        if bad.all():
            return True
        a = np.where(bad, 0, a)
        b = np.where(bad, 0, b)
    if exact or a.dtype.kind in "biu":
        return bool(np.array_equal(a, b, equal_nan=a.dtype.kind in "fc"))
    fa, fb = a.astype(complex), b.astype(complex)
    with np.errstate(all="ignore"):
        fin = np.isfinite(fa) & np.isfinite(fb)
        scale = max(float(np.max(np.abs(fa[fin]))) if fin.any() else 0.0, float(np.max(np.abs(fb[fin]))) if fin.any() else 0.0)
        ok = (np.abs(fa - fb) <= 1e-9 * scale + 1e-300) | (np.isnan(fa) & np.isnan(fb)) | (fa == fb)
    return bool(np.all(ok))


def _unstable(ex, vals, wrap, i, vx, vy):
    """tolerant comparisons only: is |vx - vy| explained by the sensitivity of the template to 1e-12 relative noise in the data?"""
    try:
        vals = list(vals)
        worst = None
        for sgn in (1.0, -1.0):
            pert = C.make_data(lambda n: [v * (1.0 + sgn * (1e-12 if k % 2 else -1e-12)) + sgn * 1e-13 for k, v in enumerate(vals[:n])])
            lp = C.flatten(C.evaluate(ex, pert, wrap))
            kp, vp, _ = leaf_facts(lp[i])
            vp = np.asarray(vp).astype(complex)
            a = np.asarray(vx).astype(complex)
            if vp.shape != a.shape:
                return True
            d = np.abs(vp - a)
            worst = d if worst is None else np.maximum(worst, d)
        diff = np.abs(np.asarray(vx).astype(complex) - np.asarray(vy).astype(complex))
        with np.errstate(all="ignore"):
            scale = float(np.nanmax(np.abs(np.asarray(vx).astype(complex)))) if np.size(vx) else 0.0
            return bool(np.all((diff <= 1e-9 * scale + 1e3 * worst) | ~np.isfinite(diff)))
    except Exception:
        return False


def judge_data(vals, part, templates=None):
    from unyt import Unit

    out = []
    data = C.make_data(lambda n: list(vals)[:n])
    kind = KINDS[int(round(abs(list(vals)[0]) * 8)) % len(KINDS)]
    if kind == "nonfinite":
        from vf.checks.c06 import variant

        data = variant(data, "nonfinite")
    part.count(f"data sets of kind {kind}")
    for fn, ex, fl in templates or C.all_templates():
        if "S" in fl or "X" in fl:
            continue
        if kind in ("float32", "nonfinite") and ("T" in fl or "linalg" in ex or "polyfit" in ex):
            continue
        tk = ex.replace(" ", "")[:48] + ("" if kind == "plain" else f"~{kind}")
        if kind == "nonfinite" and fn == "np.nan_to_num":
            continue  # +-inf is replaced by the largest float of the dtype: not a covariant operation by definition
        shared = "B" in fl
        for label, exact, as1, as2, regsel in ASSIGN:
            if shared and label in ("dyadic-A-only",):
                continue
            if (kind == "float32" or "np.float32" in ex) and not exact:
                continue  # a tolerance of 1e-9 means nothing in single precision; the bit-exact assignments remain
            part.ev()
            exact_here = exact and "T" not in fl
            r = []
            for asg in (as1, as2):
                try:
                    r.append(("ok", C.evaluate(ex, data, make_wrap(asg, shared, regsel, kind))))
                except Exception as e:
                    r.append(("err", e))
            if r[0][0] == "err" and r[1][0] == "err":
                part.count("raises under both assignments (allowed)")
                continue
            if r[0][0] != r[1][0]:
                e = r[0][1] if r[0][0] == "err" else r[1][1]
                out.append((f"C07:raises-under-one-assignment:{fn}:{tk}", {"expr": ex, "assignment": label, "error": f"{type(e).__name__}: {e}"[:200]}))
                continue
            l1, l2 = C.flatten(r[0][1]), C.flatten(r[1][1])
            if fn.startswith("out=") and ex.startswith("(lambda o: (") and len(l1) == 2 and _re.search(r"\bo\b", ex[12:ex.rfind(", o))")]):
                # NumPy returns the out= buffer itself: what comes back and what the buffer holds must be one quantity
                # (independent of covariance: a unit multiplied in twice is consistently wrong under every rescaling)
                bad = None
                for ll in (l1, l2):
                    (k0, v0, d0), (k1, v1, d1) = leaf_facts(ll[0]), leaf_facts(ll[1])
                    if k0 == "unyt" and k1 == "unyt" and np.shape(v0) == np.shape(v1):
                        if d0 != d1:
                            bad = {"returned": str(ll[0].units), "buffer": str(ll[1].units)}
                        elif "R" not in fl and not same_numbers(v0, v1, False):
                            bad = {"returned": repr(ll[0])[:100], "buffer": repr(ll[1])[:100]}
                if bad:
                    bad.update({"expr": ex, "assignment": label})
                    out.append((f"C07:out-buffer-disagrees-with-result:{fn}:{tk}", bad))
                    continue
            if len(l1) != len(l2):
                out.append((f"C07:structure-changes:{fn}:{tk}", {"expr": ex, "assignment": label}))
                continue
            nontriv = False
            for i, (x, y) in enumerate(zip(l1, l2)):
                kx, vx, dx = leaf_facts(x)
                ky, vy, dy = leaf_facts(y)
                if kx != ky:
                    out.append((f"C07:units-present-under-one-assignment:{fn}:{tk}", {"expr": ex, "assignment": label, "leaf": i, "first": repr(x)[:80], "second": repr(y)[:80]}))
                    break
                if kx == "other":
                    continue
                if "K" in fl and label != "ordinary" or ("K" in fl and label == "ordinary"):
                    if kx != "unyt":
                        out.append((f"C07:units-dropped:{fn}:{tk}", {"expr": ex, "assignment": label, "leaf": i, "got": repr(x)[:100]}))
                        break
                    if dx != T.LENGTH:
                        out.append((f"C07:wrong-dimension:{fn}:{tk}", {"expr": ex, "assignment": label, "leaf": i, "got": T.dim_name(dx), "unit": str(x.units)}))
                        break
                if kx == "unyt" and label != "ordinary":
                    # a unit-carrying result can be named in its own registry (it did not drift into the default one)
                    lost = None
                    for leaf_ in (x, y):
                        try:
                            Unit(str(leaf_.units), registry=leaf_.units.registry)
                        except Exception as e_:
                            lost = (leaf_, e_)
                    if lost:
                        out.append((f"C07:result-unit-unknown-to-its-own-registry:{fn}:{tk}", {"expr": ex, "assignment": label, "leaf": i, "result": repr(lost[0])[:100], "error": f"{type(lost[1]).__name__}: {lost[1]}"[:120]}))
                        break
                if kx == "unyt" and dx != dy:
                    out.append((f"C07:dimension-depends-on-units:{fn}:{tk}", {"expr": ex, "assignment": label, "leaf": i, "first": str(x.units), "second": str(y.units)}))
                    break
                if "R" in fl:
                    continue
                if np.size(vx) and np.any(np.asarray(vx) != 0):
                    nontriv = True
                raw = None
                if kind == "float32":
                    raw = [np.asarray(z.view(np.ndarray)) if isinstance(z, np.ndarray) and hasattr(z, "units") else np.asarray(z) for z in (x, y)]
                if not same_numbers(vx, vy, exact_here, raw):
                    if not exact_here and _unstable(ex, vals, make_wrap(as1, shared, regsel, kind), i, vx, vy):
                        # cancellation / ill-conditioning: the result moves by more than the observed difference when the
                        # data are perturbed in the 12th digit, so the difference says nothing about units
                        part.count("tolerant comparison at an unstable point (not judged)")
                        continue
                    what = "not-covariant" if kx == "unyt" else "bare-result-changes"
                    out.append((f"C07:{what}:{fn}:{tk}", {"expr": ex, "assignment": label, "leaf": i, "exact_required": exact_here, "data_kind": kind,
                                                     "first": repr(x)[:120], "second": repr(y)[:120],
                                                     "first_SI": np.asarray(vx).ravel()[:4].tolist() if np.asarray(vx).dtype.kind != "c" else repr(np.asarray(vx).ravel()[:3]),
                                                     "second_SI": np.asarray(vy).ravel()[:4].tolist() if np.asarray(vy).dtype.kind != "c" else repr(np.asarray(vy).ravel()[:3])}))
                    break
            else:
                if nontriv:
                    part.nt((fn, ex, label))
                    part.count(f"covariant ok [{label}]")
                    if len(part.samples) < 3 and label == "dyadic" and "K" not in fl:
                        part.sample({"template": ex, "assignment": label, "first": repr(l1[0])[:100], "second": repr(l2[0])[:100]})
    return out


def _case(vals, part):
    return judge_data(vals, part)


def part_random(payload):
    known = core.Known("C07")
    part = core.Part()
    core.hyp_collect(part, known, data_seed, _case, payload["n"], payload["seed"], label="C07:data")
    return part


def run(ctx):
    nt = len(C.all_templates())
    ctx.rule = (
        f"{nt} call templates over {len({f for f, _, _ in C.all_templates()})} NumPy functions/methods/indexing/out= forms x 3 coherent changes of units "
        "(all roles power-of-64 custom units: bit-exact; role A only; ordinary m->cm, s->ms: rel 1e-9) x Hypothesis-drawn data sets, each "
        "in one of six operand kinds (contiguous float64, strided views, float32, Fortran order, nan/inf entries, read-only buffers). "
        "non-trivial = distinct (function, template, assignment) whose result is not identically zero/empty and passed through a rescaling != 1"
    )
    ctx.assumptions = [
        "rounding family (flag R) is excluded from the numeric clause, LAPACK/FFT-backed functions (flag T) are judged at rel 1e-9 instead of bit-exact",
        "a tolerant (not bit-exact) comparison that fails is re-examined: if perturbing the data by 1e-12 relative moves the result by more than 1/1000 of the observed difference (cancellation, near-degenerate eigenvectors) the case is counted as unstable and not judged; bit-exact dyadic comparisons are never relaxed",
        "a raise under both assignments is acceptable; string-producing functions are skipped",
        "the type clause (flag K) is asserted for selection/reshaping/sorting/rounding/interpolation/location-spread templates only",
    ]
    n = ctx.pick(32, 480)
    ctx.merge(core.pmap(MOD, "part_random", [{"n": max(1, n // 16), "seed": ctx.seed * 1000 + i} for i in range(16)]))
    ctx.extra["templates"] = nt


def replay(ctx, data):
    d = data["detail"]
    vals = d["case"] if isinstance(d, dict) and "case" in d else CANDS[:288]
    ex = d.get("detail", {}).get("expr") if isinstance(d, dict) else None
    tl = [t for t in C.all_templates() if t[1] == ex] or None
    for key, det in judge_data(vals, ctx, tl):
        ctx.violation(key, det)
