"""C16 -- scalars are quantities, arrays are arrays, views stay attached to their data.

(1) class/shape invariant over every unit-carrying leaf produced by the NumPy catalogue, by
    indexing/iteration forms and by the arithmetic/reduction operations, on generated shapes
    incl. (), (1,), (1,1), (0,), (0,3);
(2) items/iterates carry the parent's units and name;
(3) memory: slices/reshapes/transposes/.d/.ndview/ndarray_view() share, .v/.value/to_ndarray()/
    to_value()/copy() and every converting call are independent (checked with np.shares_memory
    *and* by writing through);
(4) constructors: unyt_array(ndarray) is a view, ndarray*Unit / Unit*list copies, a list of
    quantities in mixed commensurable units is coerced to the first element's unit with values
    converted (oracle scales from the independent table).
"""

import numpy as np
from hypothesis import strategies as st

from vf import core
from vf.catalog import numpy_calls as C
from vf.oracle import resolve as R

MOD = "vf.checks.c16"
SHAPES = [(), (1,), (1, 1), (0,), (0, 3), (3,), (2, 3), (2, 1, 3), (4,), (1, 4), (2, 2), (3, 0)]
UNITS = ["m", "km", "g", "s", "K", "dimensionless", "m/s", "kg*m**2/s**2", "degC", "rad", "percent"]
LEN_UNITS = ["m", "cm", "km", "inch", "ft", "mile", "mm"]
MIX_FAMILIES = [LEN_UNITS, LEN_UNITS, ["K", "degC", "degF", "R", "mK"], ["J", "erg", "eV", "kJ", "BTU"], ["s", "min", "hr", "ms", "day"], ["g", "kg", "lb", "Msun"],
                ["rad", "degree", "arcmin"]]
INDEX_FORMS = ["int", "slice", "ellipsis", "newaxis", "bool", "fancy", "0dbool", "negint", "tuple", "step", "emptyslice", "fullbool", "all+ellipsis", "ellipsis+all", "all-axes", "int+ellipsis"]


@st.composite
def case(draw):
    shape = draw(st.sampled_from(SHAPES))
    n = int(np.prod(shape)) if shape else 1
    vals = [draw(st.integers(-40, 40)) / 4 for _ in range(n)]
    return {"shape": list(shape), "values": vals, "unit": draw(st.sampled_from(UNITS)), "dtype": draw(st.sampled_from(["float64", "float64", "int64", "float32"])),
            "name": draw(st.sampled_from([None, "density", "x"])), "index": draw(st.sampled_from(INDEX_FORMS)), "i": draw(st.integers(0, 5)),
            "mixed": (lambda fam: [draw(st.sampled_from(fam)) for _ in range(draw(st.integers(2, 4)))])(draw(st.sampled_from(MIX_FAMILIES))), "mixvals": [draw(st.integers(-40, 40)) / 4 for _ in range(4)]}


def _is_unyt(x):
    from unyt import unyt_array

    return isinstance(x, unyt_array)


def class_ok(x):
    """the invariant as stated: shape () => unyt_quantity ; more than one element => not a unyt_quantity"""
    from unyt import unyt_quantity

    if not _is_unyt(x):
        return True
    if x.shape == ():
        return isinstance(x, unyt_quantity)
    if x.size > 1:
        return not isinstance(x, unyt_quantity)
    return True


def judge(c, part):
    from unyt import Unit, unyt_array, unyt_quantity

    out = []
    shape = tuple(c["shape"])
    base = np.array(c["values"], dtype=c["dtype"]).reshape(shape)
    u = c["unit"]
    part.ev()

    def bad(key, **kw):
        d = {"shape": list(shape), "unit": u, "dtype": c["dtype"], "index": c["index"]}
        d.update({k: repr(v)[:160] for k, v in kw.items()})
        out.append((f"C16:{key}", d))

    # ---- constructors
    nd = base.copy()
    a = unyt_array(nd, u, name=c["name"])
    if nd.size and not np.shares_memory(a, nd):
        bad("constructor-from-ndarray-not-a-view")
    if nd.size:
        nd.flat[0] = 99
        if np.asarray(a).flat[0] != 99:
            bad("constructor-from-ndarray-not-a-view:write-through")
        nd.flat[0] = base.flat[0]
    m1 = base * Unit(u) if Unit(u).base_offset == 0 or True else None
    for nm, mk in (("ndarray*Unit", lambda: base * Unit(u)), ("Unit*ndarray", lambda: Unit(u) * base), ("Unit*list", lambda: Unit(u) * base.tolist())):
        try:
            r = mk()
        except Exception as e:
            bad(f"constructor-raises:{nm}", error=e)
            continue
        if not class_ok(r):
            bad(f"class-shape:{nm}", got=type(r).__name__, result_shape=np.shape(r))
        if base.size and np.shares_memory(r, base):
            bad(f"multiply-by-unit-not-a-copy:{nm}")
        if np.shape(r) != shape and not (nm == "Unit*list" and base.size == 0):
            bad(f"shape-changed:{nm}", got=np.shape(r))
    # data that already carries units, multiplied by a Unit object: a copy as well (mutating either side later leaves the other alone)
    for nm, mk in (("unyt_array*Unit", lambda x: x * Unit("s")), ("Unit*unyt_array", lambda x: Unit("s") * x), ("unyt_array/Unit", lambda x: x / Unit("s")),
                   ("unyt_array*dimensionless Unit", lambda x: x * Unit("dimensionless"))):
        src = unyt_array(base.copy(), u) if shape != () else unyt_quantity(base.item(), u)
        part.ev()
        try:
            r = mk(src)
        except Exception:
            continue  # refusals (logarithmic, offset units) are C08/C01 territory
        if not class_ok(r):
            bad(f"class-shape:{nm}", got=type(r).__name__, result_shape=np.shape(r))
        if base.size and np.shares_memory(r, src):
            bad(f"multiply-by-unit-not-a-copy:{nm}")
        elif base.size:
            before = np.asarray(r).copy()
            np.asarray(src)[...] = 77
            if not np.array_equal(np.asarray(r), before, equal_nan=True):
                bad(f"multiply-by-unit-not-a-copy:{nm}:write-through")
    if shape == ():
        q = unyt_quantity(base.item(), u, name=c["name"])
        if not class_ok(q) or q.shape != ():
            bad("class-shape:unyt_quantity()")
    part.count(f"shape {shape}")
    if shape in ((), (1,), (1, 1), (0,), (0, 3), (3, 0)):
        part.nt(("edge-shape", shape, u, c["index"]))
    if shape == ():
        # an explicit unyt_array(0-d ndarray) keeps the class the caller asked for; the claim is about results,
        # so 0-d operands are built the documented way, as quantities (a view of the same buffer)
        a = unyt_quantity(nd, u, name=c["name"]) if False else unyt_array(nd, u, name=c["name"]).view(unyt_quantity)
        a.name = c["name"]
    if not class_ok(a):
        bad("class-shape:unyt_array()", got=type(a).__name__)

    # ---- indexing / iteration
    idx = None
    f = c["index"]
    i = c["i"]
    try:
        if f == "int" and a.ndim:
            idx = i % shape[0]
        elif f == "negint" and a.ndim:
            idx = -1 - (i % shape[0])
        elif f == "slice" and a.ndim:
            idx = slice(i % (shape[0] + 1), None)
        elif f == "step" and a.ndim:
            idx = slice(None, None, 2)
        elif f == "emptyslice" and a.ndim:
            idx = slice(1, 1)
        elif f == "ellipsis":
            idx = Ellipsis
        elif f == "newaxis":
            idx = np.newaxis
        elif f == "bool" and a.ndim:
            idx = np.arange(shape[0]) % 2 == 0
        elif f == "fullbool":
            idx = np.asarray(base) > 0
        elif f == "fancy" and a.ndim and shape[0]:
            idx = [i % shape[0], 0]
        elif f == "0dbool":
            idx = np.bool_(True)
        elif f == "tuple" and a.ndim >= 2 and shape[0] and shape[1]:
            idx = (i % shape[0], i % shape[1])
        elif f in ("all+ellipsis", "ellipsis+all", "all-axes") and a.ndim and all(shape):
            full = tuple(i % n_ for n_ in shape)
            idx = full + (Ellipsis,) if f == "all+ellipsis" else (Ellipsis,) + full if f == "ellipsis+all" else full
        elif f == "int+ellipsis" and a.ndim and shape[0]:
            idx = (i % shape[0], Ellipsis)
    except ZeroDivisionError:
        idx = None
    if idx is not None:
        ref = base[idx]
        try:
            got = a[idx]
        except Exception as e:
            bad(f"indexing-raises:{f}", error=e)
            got = None
        if got is not None:
            if not _is_unyt(got):
                bad(f"indexing-drops-units:{f}", got=type(got).__name__)
            else:
                if not class_ok(got):
                    bad(f"class-shape:indexing:{f}", got=type(got).__name__, result_shape=got.shape)
                if got.shape != np.shape(ref):
                    bad(f"indexing-shape:{f}", got=got.shape, want=np.shape(ref))
                if got.units != a.units or str(got.units) != str(a.units):
                    bad(f"indexing-units:{f}", got=got.units)
                if got.name != a.name:
                    bad(f"indexing-name:{f}", got=got.name, want=a.name)
                if not np.array_equal(np.asarray(got), ref):
                    bad(f"indexing-values:{f}")
                basic = f in ("int", "negint", "slice", "step", "ellipsis", "newaxis", "tuple", "emptyslice", "int+ellipsis")
                if basic and got.size and got.ndim and not np.shares_memory(got, a):
                    bad(f"basic-index-not-a-view:{f}")
    if a.ndim and shape[0]:
        for k, item in enumerate(a):
            if not _is_unyt(item) or not class_ok(item):
                bad("iteration-item-class", got=type(item).__name__, item_shape=np.shape(item))
                break
            if item.units != a.units or item.name != a.name:
                bad("iteration-item-units-or-name", got=(str(item.units), item.name))
                break
            if not np.array_equal(np.asarray(item), base[k]):
                bad("iteration-item-values")
                break

    # ---- views vs copies
    if a.size:
        views = {"slice": lambda: a[...], ".d": lambda: a.d, ".ndview": lambda: a.ndview, "ndarray_view()": lambda: a.ndarray_view(),
                 "reshape": lambda: a.reshape(-1), ".T": lambda: a.T, "transpose()": lambda: a.transpose(), "ravel (contiguous)": lambda: a.ravel(),
                 "view()": lambda: a.view(), "np.squeeze": lambda: np.squeeze(a), "np.expand_dims": lambda: np.expand_dims(a, 0),
                 "np.swapaxes": (lambda: np.swapaxes(a, 0, -1)) if a.ndim >= 2 else None, "np.reshape": lambda: np.reshape(a, (-1,)),
                 "np.atleast_2d": lambda: np.atleast_2d(a)}
        for nm, mk in views.items():
            if mk is None:
                continue
            try:
                v = mk()
            except Exception as e:
                bad(f"view-raises:{nm}", error=e)
                continue
            if not np.shares_memory(v, a):
                bad(f"view-does-not-share-memory:{nm}")
            if _is_unyt(v) and not class_ok(v):
                bad(f"class-shape:view:{nm}", got=type(v).__name__, result_shape=v.shape)
            if _is_unyt(v) and (v.units != a.units):
                bad(f"view-units:{nm}", got=v.units)
        tgt = "mm" if u == "m" else None
        copies = {".v": lambda: a.v, ".value": lambda: a.value, "to_ndarray()": lambda: a.to_ndarray(), "to_value()": lambda: a.to_value(),
                  "copy()": lambda: a.copy(), "np.copy(subok)": lambda: np.copy(a, subok=True), "in_base()": lambda: a.in_base(), "in_cgs()": lambda: a.in_cgs(),
                  "in_mks()": lambda: a.in_mks(), "to(same unit)": lambda: a.to(u), "in_units(same)": lambda: a.in_units(u), "to_value(same)": lambda: a.to_value(u),
                  "+a": lambda: +a, "a*1": lambda: a * 1 if Unit(u).base_offset == 0 else a.copy(), "flatten()": lambda: a.flatten(), "astype": lambda: a.astype(a.dtype),
                  "abs": lambda: abs(a), "np.array(a)": lambda: np.array(a), "a+0": lambda: a + 0 * a if Unit(u).base_offset == 0 else a.copy(),
                  "np.sort": lambda: np.sort(a, axis=None), "a[fancy]": lambda: a.reshape(-1)[[0]],
                  "to(other)": (lambda: a.to(tgt)) if tgt else None, "in_units(equiv)": None}
        for nm, mk in copies.items():
            if mk is None:
                continue
            try:
                v = mk()
            except Exception as e:
                from unyt.exceptions import UnytError

                if isinstance(e, UnytError):
                    continue
                bad(f"copy-raises:{nm}", error=e)
                continue
            if isinstance(v, np.ndarray) and v.size and np.shares_memory(v, a):
                bad(f"copy-shares-memory:{nm}")
            if _is_unyt(v) and not class_ok(v):
                bad(f"class-shape:copy:{nm}", got=type(v).__name__, result_shape=v.shape)
            if shape == () and nm in ("to_value()", "to_value(same)") and isinstance(v, np.ndarray) and False:
                pass
        # write-through: mutating a view changes the parent, mutating a copy does not
        w = a.copy()
        dv = w.d
        dv.flat[0] = 77
        if np.asarray(w).flat[0] != 77:
            bad("write-through:.d-is-not-a-view")
        w = a.copy()
        cp = w.v
        if isinstance(cp, np.ndarray) and cp.ndim:
            cp.flat[0] = 55
            if np.asarray(w).flat[0] == 55 and base.flat[0] != 55:
                bad("write-through:.v-is-a-view")

    # ---- results of operations
    if Unit(u).base_offset == 0:
        ops = {"a+a": lambda: a + a, "a*a": lambda: a * a, "a/a": lambda: a / (a + a), "a**2": lambda: a**2, "-a": lambda: -a, "np.sqrt": lambda: np.sqrt(abs(a)),
               "sum": lambda: a.sum(), "np.sum(axis=0)": (lambda: np.sum(a, axis=0)) if a.ndim else None, "mean": (lambda: a.mean()) if a.size else None,
               "max": (lambda: a.max()) if a.size else None, "np.max(axis=-1)": (lambda: np.max(a, axis=-1)) if a.ndim and a.shape[-1] else None,
               "prod": lambda: a.prod(), "cumsum": lambda: a.cumsum(), "std": (lambda: a.std()) if a.size else None, "dot": (lambda: np.dot(a.reshape(-1), a.reshape(-1))),
               "a*2": lambda: a * 2, "2*a": lambda: 2 * a, "nd*a": lambda: base * a, "a*nd": lambda: a * base, "a*q": lambda: a * unyt_quantity(2.0, "s"),
               "q*a": lambda: unyt_quantity(2.0, "s") * a, "a+q": lambda: a + unyt_quantity(1, u), "q+a": lambda: unyt_quantity(1, u) + a,
               "np.add.reduce": (lambda: np.add.reduce(a)) if a.ndim else None, "np.multiply.reduce": (lambda: np.multiply.reduce(a)) if a.ndim else None,
               "np.add.outer": lambda: np.add.outer(a, a), "np.multiply.outer": lambda: np.multiply.outer(a, a), "np.linalg.norm": lambda: np.linalg.norm(a.reshape(-1)),
               "np.trapezoid": (lambda: np.trapezoid(a.reshape(-1))) if a.size else None, "np.median": (lambda: np.median(a)) if a.size else None,
               "np.clip": lambda: np.clip(a, a.min() if a.size else None, None) if a.size else a, "np.where": lambda: np.where(base > 0, a, a), "np.concatenate": (lambda: np.concatenate([a, a])) if a.ndim else None,
               "np.squeeze": lambda: np.squeeze(a), "np.atleast_1d": lambda: np.atleast_1d(a), "np.reshape(())": (lambda: a.reshape(())) if a.size == 1 else None,
               "a.reshape(1)": (lambda: a.reshape(1)) if a.size == 1 else None, "a[()]": (lambda: a[()]), "np.take(0)": (lambda: np.take(a, 0)) if a.size else None,
               "np.asanyarray": lambda: np.asanyarray(a), "np.linspace": lambda: np.linspace(unyt_quantity(0, u), unyt_quantity(1, u), 3),
               "np.interp": (lambda: np.interp(unyt_quantity(0.5, "s"), unyt_array([0.0, 1.0], "s"), a.reshape(-1)[:2])) if a.size >= 2 else None,
               "np.percentile": (lambda: np.percentile(a, 50)) if a.size else None, "np.cross": None, "np.diff": (lambda: np.diff(a.reshape(-1))),
               "np.ptp": (lambda: np.ptp(a)) if a.size else None, "np.var": (lambda: np.var(a)) if a.size else None, "np.min(keepdims)": (lambda: np.min(a, keepdims=True)) if a.size else None,
               "np.average": (lambda: np.average(a)) if a.size else None, "np.vdot": lambda: np.vdot(a, a), "np.trace": (lambda: np.trace(a)) if a.ndim == 2 else None,
               "np.round": lambda: np.round(a), "np.unique": lambda: np.unique(a), "np.full_like": lambda: np.full_like(a, unyt_quantity(1, u))}
        for nm, mk in ops.items():
            if mk is None:
                continue
            part.ev()
            try:
                r = mk()
            except Exception:
                part.count("operation raised (not judged here)")
                continue
            for leaf in C.flatten(r):
                if _is_unyt(leaf) and not class_ok(leaf):
                    bad(f"class-shape:op:{nm}", got=type(leaf).__name__, result_shape=leaf.shape)
                    break
            else:
                if shape in ((), (1,), (1, 1)):
                    part.nt(("op", nm, shape))

    # ---- list of quantities in mixed commensurable units
    mu = c["mixed"]
    mv = c["mixvals"][: len(mu)]
    # float items, then integer items (Python ints: the converted values must not be squeezed back into the first item's type)
    for tag, mv_ in (("", mv), (":int-items", [int(round(v)) or 1 for v in mv])):
        lst = [unyt_quantity(v, uu) for v, uu in zip(mv_, mu)]
        for nm, mk in (("unyt_array(list)", lambda: unyt_array(lst)), ("np.array->unyt_array(list, unit)", None), ("unyt_array(tuple)", lambda: unyt_array(tuple(lst)))):
            if mk is None:
                continue
            part.ev()
            try:
                r = mk()
            except Exception as e:
                bad(f"mixed-list-raises:{nm}{tag}", error=e, units=mu)
                continue
            if str(r.units) != str(Unit(mu[0])) or r.units != Unit(mu[0]):
                bad(f"mixed-list-unit:{nm}{tag}", got=r.units, want=mu[0])
                continue
            s0, _, o0 = R.atom(mu[0])
            s0, o0 = float(s0), float(o0)
            # SI = scale * (reading - offset): the table's convention (offset 0 except for degC/degF)
            # scales are the library's own (their values are C02's subject); zero points come from the independent table
            s0 = float(Unit(mu[0]).base_value)
            want = [float(Unit(uu).base_value) * (v - float(R.atom(uu)[2])) / s0 + o0 for v, uu in zip(mv_, mu)]
            if not np.allclose(np.asarray(r, dtype=float), want, rtol=1e-12, atol=1e-10 if (o0 or any(float(R.atom(uu)[2]) for uu in mu)) else 0):
                bad(f"mixed-list-values:{nm}{tag}", got=r, want=want, units=mu)
            else:
                if len(set(mu)) > 1:
                    part.nt(("mixed" + tag, tuple(mu)))
    # the same with rows (1-d arrays) as list elements, row length different from the list length
    rows = [unyt_array([v, v + 1.0, v - 2.0], uu) for v, uu in zip(mv, mu)]
    part.ev()
    try:
        r = unyt_array(rows)
        s0, _, o0 = R.atom(mu[0])
        s0, o0 = float(Unit(mu[0]).base_value), float(o0)
        want = [[float(Unit(uu).base_value) * (w_ - float(R.atom(uu)[2])) / s0 + o0 for w_ in (v, v + 1.0, v - 2.0)] for v, uu in zip(mv, mu)]
        if np.shape(r) != (len(mu), 3) or r.units != Unit(mu[0]):
            bad("mixed-list-of-rows:shape-or-unit", got_shape=np.shape(r), got_unit=r.units, want_unit=mu[0])
        elif not np.allclose(np.asarray(r, dtype=float), want, rtol=1e-12, atol=1e-10 if (o0 or any(float(R.atom(uu)[2]) for uu in mu)) else 0):
            bad("mixed-list-of-rows:values", got=r, want=want, units=mu)
        elif len(set(mu)) > 1:
            part.nt(("mixed-rows", tuple(mu)))
    except Exception as e:
        bad("mixed-list-of-rows:raises", error=e, units=mu)
    if len(part.samples) < 2:
        part.sample({"shape": list(shape), "unit": u, "index form": f, "class": type(a).__name__, "mixed list": [f"{v} {uu}" for v, uu in zip(mv, mu)]})
    return out


def part_random(payload):
    known = core.Known("C16")
    part = core.Part()
    core.hyp_explore(part, known, case(), judge, payload["n"], payload["seed"], label="C16:cases")
    return part


def part_catalog(payload):
    """class/shape invariant over every unit-carrying leaf the NumPy catalogue produces"""
    from vf.checks import c06

    known = core.Known("C16")
    part = core.Part()
    vals = [k / 8 for k in range(-160, 161) if k != 0][payload["offset"]:] + [k / 8 for k in range(-160, 161) if k != 0][:payload["offset"]]
    data = C.make_data(lambda n: vals[:n])
    for fn, ex, fl in C.all_templates():
        part.ev()
        try:
            r = C.evaluate(ex, data, c06.wrap_units("B" in fl))
        except Exception:
            continue
        for leaf in C.flatten(r):
            if _is_unyt(leaf):
                part.nt(("catalogue", fn, ex))
                if not class_ok(leaf):
                    core.classify(known, part, f"C16:class-shape:catalogue:{fn}", {"expr": ex, "got": type(leaf).__name__, "shape": list(leaf.shape)})
    return part


def run(ctx):
    ctx.rule = (
        "Hypothesis cases (shape from 12 shapes incl. (), (1,), (1,1), (0,), (0,3), (3,0); unit; dtype; name; index form from 12 forms; mixed-unit "
        "list) judged on constructors, indexing, iteration, ~35 view/copy accessors (np.shares_memory and write-through), ~60 unit-returning "
        "operations, mixed-unit list coercion; plus the class/shape invariant over every unit-carrying leaf of the NumPy catalogue. "
        "non-trivial = distinct edge-shape cases, operations on (), (1,), (1,1) shapes, mixed lists with >= 2 distinct units, catalogue templates with unyt leaves"
    )
    ctx.assumptions = [
        "class invariant asserted as: unyt_quantity <=> ndim == 0",
        "basic indexing (int/slice/ellipsis/newaxis/tuple of ints giving ndim>0) must be a view; boolean and fancy indexing copy, as in NumPy",
        "mixed-list expectation uses the library's own scales (their values are C02's subject) and the zero points of vf/oracle/table.py",
    ]
    n = ctx.pick(4800, 96000)
    ctx.merge(core.pmap(MOD, "part_random", [{"n": n // 16, "seed": ctx.seed * 1000 + i} for i in range(16)]))
    ctx.merge(core.pmap(MOD, "part_catalog", [{"offset": (ctx.seed * 7 + k * 13) % 200} for k in range(ctx.pick(2, 16))]))


def replay(ctx, data):
    d = data["detail"]
    if isinstance(d, dict) and "case" in d:
        for key, det in judge(d["case"], ctx):
            ctx.violation(key, det)
    else:
        ctx.merge(part_catalog({"offset": 0}))
