"""C06 -- NumPy functions compute the same numbers on quantities as on bare arrays.

Differential against NumPy itself: every catalogue template is evaluated on bare copies of the
data and on the same data with units attached (one unit per dimension role, so no rescaling
is involved).  Either the unyt call raises, or structure, shapes, dtype kinds and values agree
(bit-equal; <= 8 ulp is classed as re-associated rounding), including the in-place effect on
mutated targets.
"""

import numpy as np
from hypothesis import strategies as st

from vf import core
from vf.catalog import numpy_calls as C

MOD = "vf.checks.c06"
CANDS = [k / 8 for k in range(-160, 161) if k != 0]
data_seed = st.lists(st.sampled_from(CANDS), min_size=288, max_size=288, unique=True)


EXTRA_KINDS = ("float32", "strided", "fortran", "nonfinite", "readonly", "negzero")


def variant(data, kind):
    if kind in ("float", "strided", "fortran", "readonly"):
        return data
    out = {}
    if kind == "nonfinite":
        # nan / inf entries in the 1-d, 2-d and 3-d operands (the nan* family otherwise never sees a nan)
        for k, v in data.items():
            v = v.copy()
            if k in ("a", "b", "c", "a2") and v.ndim == 1:
                v[1] = np.nan
                v[4] = np.inf if k != "c" else -np.inf
            elif k in ("M", "N", "M2", "nM"):
                v[0, 1] = np.nan
                v[2, 2] = np.inf
            elif k == "T4":
                v[0, 0, 0] = np.nan
                v[1, 2, 3] = -np.inf
            out[k] = v
        return out
    if kind == "negzero":
        for k, v in data.items():
            v = v.copy()
            if k in ("a", "b", "M", "T4", "c"):
                v.flat[0] = -0.0
                v.flat[2] = 0.0
            out[k] = v
        return out
    for k, v in data.items():
        if kind == "float32":
            out[k] = v.astype("float32")
        elif kind == "int":
            out[k] = np.rint(v * 8).astype("int64") if k not in ("S", "R", "Sym", "S6", "P4S", "nM3") else np.rint(v * 8).astype("int64")
        else:
            out[k] = v.astype("complex128") * (1 + 0.5j)
    return out


def layout(x, kind):
    """memory layout / flags of one operand (applied to the bare reference and to the unit-carrying twin alike)"""
    if kind == "strided" and x.ndim >= 1:
        return np.repeat(x, 2, axis=-1)[..., ::2]
    if kind == "fortran" and x.ndim >= 2:
        return np.asfortranarray(x)
    if kind == "readonly":
        x.setflags(write=False)
    return x


# unit plans: which unit each role carries.  "Attaching units never changes which computation is carried out" is claimed for every
# unit, so besides plain SI units each data set is also run with angles (where handlers like to be helpful), an offset scale, a
# logarithmic unit.  (Ratios of commensurable units such as km/m are not used: the library reduces them to a number times the
# dimensionless unit, which is re-expression - C07's subject - not another computation.)  A refusal is always allowed; numbers
# that differ are not.
PLANS = {
    "si": {"A": "m", "A2": "m", "B": "s", "G": "rad", "I": "1/m"},
    "angle": {"A": "degree", "A2": "degree", "B": "s", "G": "degree", "I": "1/degree"},
    "offset": {"A": "degC", "A2": "degC", "B": "s", "G": "arcsec", "I": "1/K"},
    "log": {"A": "dB", "A2": "dB", "B": "s", "G": "mrad", "I": "1/m"},
}
PLAN_NAMES = tuple(PLANS)


def wrap_units(shared, kind="float", plan="si"):
    from unyt import unyt_array, unyt_quantity

    def w(x, role):
        x = layout(x, kind)
        u = PLANS[plan][role] if not (role == "B" and shared) else PLANS[plan]["A"]
        if x.shape == ():
            return unyt_quantity(x, u)
        return unyt_array(x, u)

    return w


def strip(x):
    if hasattr(x, "units"):
        return np.asarray(x.view(np.ndarray) if isinstance(x, np.ndarray) else x)
    return x


def ulp_close(a, b, n=8):
    a = np.asarray(a)
    b = np.asarray(b)
    if a.dtype.kind not in "fc" and b.dtype.kind not in "fc":
        return False
    fa = a.astype(complex)
    fb = b.astype(complex)
    t = a.dtype if a.dtype.kind in "fc" else b.dtype
    eps = np.finfo(t).eps
    with np.errstate(all="ignore"):
        scale = np.maximum(np.abs(fa), np.abs(fb))
        # re-association inside a reduction: bound by the largest magnitude in the array
        big = float(np.max(scale)) if scale.size else 0.0
        ok = (np.abs(fa - fb) <= n * eps * np.maximum(scale, big * 1e-3)) | (np.isnan(fa) & np.isnan(fb)) | (fa == fb)
    return bool(np.all(ok))


def compare(ref, got, fn, ex, out, part, dkind):
    lr, lg = C.flatten(ref), C.flatten(got)
    key = f"{fn}:{ex.replace(' ', '')[:80]}"
    if len(lr) != len(lg):
        out.append((f"C06:structure:{key}", {"expr": ex, "ref_leaves": len(lr), "got_leaves": len(lg), "dtype": dkind}))
        return
    for i, (r, g) in enumerate(zip(lr, lg)):
        if isinstance(r, (str, bytes, type(None))) or isinstance(g, (str, bytes, type(None))):
            if isinstance(r, str) and not isinstance(g, str):
                out.append((f"C06:type:{key}", {"expr": ex, "ref": repr(r)[:80], "got": repr(g)[:80]}))
            continue
        ra, ga = np.asarray(r), np.asarray(strip(g))
        if ra.dtype == object or ga.dtype == object:
            continue
        if ra.shape != ga.shape:
            out.append((f"C06:shape:{key}", {"expr": ex, "leaf": i, "ref": list(ra.shape), "got": list(ga.shape), "dtype": dkind}))
            return
        if ra.dtype.kind != ga.dtype.kind:
            out.append((f"C06:dtype-kind:{key}", {"expr": ex, "leaf": i, "ref": str(ra.dtype), "got": str(ga.dtype), "dtype": dkind}))
            return
        if np.array_equal(ra, ga, equal_nan=ra.dtype.kind in "fc"):
            part.count("bit-equal")
            continue
        if ulp_close(ra, ga):
            part.count("reordered-rounding (<= 8 ulp)")
            continue
        out.append((f"C06:values-differ:{key}", {"expr": ex, "leaf": i, "ref": ra.ravel()[:6].tolist(), "got": ga.ravel()[:6].tolist(), "dtype": dkind}))
        return


def judge_data(vals, part, templates=None, plan=None):
    out = []
    base = C.make_data(lambda n: list(vals)[:n])
    base2 = C.make_data(lambda n: list(reversed(list(vals)))[:n])
    extra = EXTRA_KINDS[int(round(abs(list(vals)[0]) * 8)) % len(EXTRA_KINDS)]
    plan = plan or PLAN_NAMES[int(round(abs(list(vals)[1]) * 8)) % len(PLAN_NAMES)]
    part.count(f"data sets under unit plan {plan}")
    for dkind in ("float", "int", "complex", extra):
        data = variant(base, dkind)
        data2 = variant(base2, dkind)
        for fn, ex, fl in templates or C.all_templates():
            if "N" in fl or "S" in fl:
                continue
            if dkind == "nonfinite" and ("T" in fl or "linalg" in ex or "polyfit" in ex or "corrcoef" in ex or "cov(" in ex):
                continue  # LAPACK prints diagnostics for nan/inf matrices; nothing unit-related to learn there
            part.ev()
            try:
                ref = C.evaluate(ex, data, lambda x, role: layout(x, dkind))
            except Exception:
                part.count(f"bare call raises ({dkind})")
                continue
            try:
                got = C.evaluate(ex, data, wrap_units("B" in fl, dkind, plan))
            except Exception as e:
                part.count("unyt call raises (allowed)")
                part.count(f"raises:{fn}:{type(e).__name__}")
                continue
            # non-trivial: the bare result depends on the data
            try:
                ref2 = C.evaluate(ex, data2, lambda x, role: x)
                l1, l2 = C.flatten(ref), C.flatten(ref2)
                dep = any(not (np.shape(x) == np.shape(y) and np.array_equal(np.asarray(x), np.asarray(y))) for x, y in zip(l1, l2)
                          if not isinstance(x, (str, type(None))))
            except Exception:
                dep = False
            if dep:
                part.nt((fn, ex, dkind))
            n0 = len(out)
            compare(ref, got, fn, ex, out, part, dkind)
            if plan != "si":
                out[n0:] = [(k_ + "~units=" + plan, dict(d_, plan=plan, units=PLANS[plan])) for k_, d_ in out[n0:]]
            if len(part.samples) < 3 and dep and dkind == "float":
                part.sample({"template": ex, "bare": repr(C.flatten(ref)[0])[:120], "unyt": repr(C.flatten(got)[0])[:120]})
    return out


def _case(vals, part):
    return judge_data(vals, part)


def part_random(payload):
    known = core.Known("C06")
    part = core.Part()
    core.hyp_collect(part, known, data_seed, _case, payload["n"], payload["seed"], label="C06:data")
    return part


def run(ctx):
    nt = len(C.all_templates())
    ctx.rule = (
        f"{nt} call templates over {len(C.CATALOG)} NumPy functions/methods/indexing forms (numpy, numpy.linalg, numpy.fft; positional, "
        "keyword, in-place-target variants; 0-d/1-d/2-d/3-d/square shapes) x {float64,int64,complex128} on every data set plus one of "
        "{float32, non-contiguous strided views, Fortran order, nan/inf entries, read-only buffers, signed zeros} per data set x Hypothesis-drawn data sets "
        "(240 distinct dyadic rationals each); every template evaluated on bare copies and with units attached. non-trivial = distinct "
        "(function, template, dtype) whose bare result differs between two data sets"
    )
    ctx.assumptions = [
        "a raise by the unyt call is always acceptable (the statement says 'either raises or ...'); counted per function in the histogram",
        "differences <= 8 ulp (relative to the largest magnitude of the result array) are classed as re-associated rounding",
        "string-producing functions and plain-ndarray constructors are not compared",
    ]
    n = ctx.pick(32, 960)
    ctx.merge(core.pmap(MOD, "part_random", [{"n": max(1, n // 16), "seed": ctx.seed * 1000 + i} for i in range(16)]))
    funcs = {fn for fn, _, _ in C.all_templates()}
    ctx.extra["functions_in_catalogue"] = len(funcs)
    ctx.extra["templates"] = nt


def replay(ctx, data):
    d = data["detail"]
    vals = d["case"] if isinstance(d, dict) and "case" in d else CANDS[:288]
    for key, det in judge_data(vals, ctx):
        ctx.violation(key, det)
