"""C01 -- incommensurable quantities are never silently combined.

Enumerated matrix  operation-form x operand-kind pair x dimension pair x shape, judged by the
independent dimension vectors of vf.oracle.table: different dimensions => the call raises and
numbers/units of every operand are unchanged, except for the documented exceptions."""

import itertools
import operator

import numpy as np

from vf import core
from vf.oracle import resolve as R
from vf.oracle import table as T

MOD = "vf.checks.c01"

# ---------------------------------------------------------------- operands
SHAPES = {"s": (), "a": (3,), "b": (2, 3), "c": (3, 1)}
_VALS = np.array([1.5, -2.25, 3.0, 4.5, -5.0, 6.75])


def _data(shape, bump=0.0):
    n = int(np.prod(shape)) if shape else 1
    v = (_VALS[:n] + bump).reshape(shape) if shape else np.float64(_VALS[0] + bump)
    return np.array(v, dtype="float64")


def make(desc):
    """desc: ('q', unit, shapekey) | ('dimless', shapekey) | ('pct', shapekey) | ('bare', shapekey)
    | ('zero', shapekey|'list') | ('qlist', unit)"""
    from unyt import unyt_array, unyt_quantity

    k = desc[0]
    if k == "q":
        sh = SHAPES[desc[2]]
        return unyt_array(_data(sh), desc[1]) if sh != () else unyt_quantity(float(_data(sh)), desc[1])
    if k == "dimless":
        sh = SHAPES[desc[1]]
        return unyt_array(_data(sh, 0.5), "dimensionless") if sh != () else unyt_quantity(2.5, "dimensionless")
    if k == "pct":
        sh = SHAPES[desc[1]]
        return unyt_array(_data(sh, 0.5), "%") if sh != () else unyt_quantity(2.5, "%")
    if k == "bare":
        sh = SHAPES[desc[1]]
        return _data(sh, 0.25) if sh != () else 2.75
    if k == "barez":  # a bare array that *contains* a zero but is not all-zero: the documented exception does not cover it
        sh = SHAPES[desc[1]]
        d = np.array(_data(sh, 0.25), dtype=float, copy=True)
        d.flat[0] = 0.0
        return d
    if k == "zero":
        if desc[1] == "list":
            return [0.0, 0.0, 0.0]
        sh = SHAPES[desc[1]]
        return np.zeros(sh) if sh != () else 0.0
    if k == "qlist":
        from unyt import unyt_quantity as uq

        return [uq(1.5, desc[1]), uq(2.5, desc[1]), uq(-3.0, desc[1])]
    if k == "zq":  # zero-filled *quantity*: the all-zero exception is documented for bare zeros only
        sh = SHAPES[desc[2]]
        return unyt_array(np.zeros(sh), desc[1]) if sh != () else unyt_quantity(0.0, desc[1])
    if k == "hq":  # same symbol, same scale, another dimension: unit objects from one registry's history
        sh = SHAPES[desc[2]]
        u = _history_units()[desc[1]]
        return unyt_array(_data(sh), u) if sh != () else unyt_quantity(float(_data(sh)), u)
    raise ValueError(desc)


_HIST = {}


def _history_units():
    """registry history: 'vfoo' added as a length, a unit captured, the symbol removed and re-added as a time with the
    same scale, another unit captured.  The two units must never be combined."""
    if not _HIST:
        import unyt.dimensions as D
        from unyt import Unit
        from unyt.unit_registry import UnitRegistry

        reg = UnitRegistry()
        reg.add("vfoo", 2.0, D.length)
        _HIST["old"] = Unit("vfoo", registry=reg)
        reg.remove("vfoo")
        reg.add("vfoo", 2.0, D.time)
        _HIST["new"] = Unit("vfoo", registry=reg)
    return _HIST


def dim_of(desc, unit_dims):
    k = desc[0]
    if k in ("q", "qlist", "zq"):
        return unit_dims[desc[1]]
    if k == "hq":
        return T.LENGTH if desc[1] == "old" else T.TIME
    if k in ("dimless", "pct", "bare", "barez"):
        return T.ZERO
    return None  # zero: wildcard


def snap(x):
    """numbers (numerically) and units of an operand"""
    if isinstance(x, list):
        return [snap(e) for e in x]
    if hasattr(x, "units"):
        return (np.array(x.d, dtype="float64", copy=True), str(x.units.expr), float(x.units.base_value), x.shape)
    if isinstance(x, np.ndarray):
        return (np.array(x, dtype="float64", copy=True), None, None, x.shape)
    return (x,)


def same_snap(a, b):
    if isinstance(a, list):
        return all(same_snap(x, y) for x, y in zip(a, b))
    if len(a) == 1:
        return a == b
    return a[1:] == b[1:] and np.array_equal(a[0], b[0], equal_nan=True)


EM_PAIRS = set()
for _a, _b in ((T.CHARGE, T.CHARGE_CGS), (T.CURRENT, T.CURRENT_CGS), (T.BFIELD, T.BFIELD_CGS), (T.EPOT, T.EPOT_CGS),
               (T.RESIST, T.RESIST_CGS)):
    EM_PAIRS.add((_a, _b))
    EM_PAIRS.add((_b, _a))


# ---------------------------------------------------------------- operation forms
class Form:
    def __init__(self, name, fn, group, comparison=None, inplace=False, needs=None, outkind=None,
                 scalar_literal_ok=False, first_must_be_quantity=False):
        self.name, self.fn, self.group = name, fn, group
        self.comparison, self.inplace, self.needs = comparison, inplace, needs
        self.outkind = outkind
        self.scalar_literal_ok = scalar_literal_ok
        self.first_must_be_quantity = first_must_be_quantity


def _forms():
    F = []
    U2 = {
        "add": None, "subtract": None, "maximum": None, "minimum": None, "fmax": None, "fmin": None,
        "hypot": None, "remainder": None, "mod": None, "fmod": None, "arctan2": None,
        "nextafter": None, "heaviside": None, "divmod": None,
        "greater": "order", "greater_equal": "order", "less": "order", "less_equal": "order",
        "equal": "eq", "not_equal": "ne",
    }
    for name, cmp_ in U2.items():
        uf = getattr(np, name)
        F.append(Form(f"np.{name}(x,y)", (lambda uf: lambda x, y, o: uf(x, y))(uf), "ufunc", cmp_))
        F.append(Form(f"np.{name}.outer(x,y)", (lambda uf: lambda x, y, o: uf.outer(x, y))(uf), "ufunc", cmp_))
        if name != "divmod":
            F.append(Form(f"np.{name}(x,y,out=q)", (lambda uf: lambda x, y, o: uf(x, y, out=o))(uf), "ufunc", cmp_, outkind="q"))
            F.append(Form(f"np.{name}(x,y,out=bare)", (lambda uf: lambda x, y, o: uf(x, y, out=o))(uf), "ufunc", cmp_, outkind="bare"))
            F.append(Form(f"np.{name}.at(x,[0],y)", (lambda uf: lambda x, y, o: uf.at(x, [0], y))(uf), "ufunc", cmp_, needs="x-array"))
    OPS = {
        "x+y": (operator.add, None), "x-y": (operator.sub, None), "x%y": (operator.mod, None),
        "divmod(x,y)": (divmod, None), "x<y": (operator.lt, "order"), "x<=y": (operator.le, "order"),
        "x>y": (operator.gt, "order"), "x>=y": (operator.ge, "order"), "x==y": (operator.eq, "eq"),
        "x!=y": (operator.ne, "ne"),
    }
    for name, (op, cmp_) in OPS.items():
        F.append(Form(name, (lambda op: lambda x, y, o: op(x, y))(op), "operator", cmp_))
    for name, op in {"x+=y": operator.iadd, "x-=y": operator.isub, "x%=y": operator.imod}.items():
        F.append(Form(name, (lambda op: lambda x, y, o: op(x, y))(op), "operator", None, inplace=True, needs="x-array"))

    # ---- array functions that merge values from several arrays
    def A(name, fn, **kw):
        F.append(Form(name, fn, "arrayfunc", **kw))

    A("np.concatenate([x,y])", lambda x, y, o: np.concatenate([np.atleast_1d(x), np.atleast_1d(y)]), needs="1d")
    A("np.stack([x,y])", lambda x, y, o: np.stack([x, y]), needs="same-shape")
    A("np.vstack([x,y])", lambda x, y, o: np.vstack([x, y]), needs="same-shape")
    A("np.hstack([x,y])", lambda x, y, o: np.hstack([x, y]), needs="same-shape")
    A("np.dstack([x,y])", lambda x, y, o: np.dstack([x, y]), needs="same-shape")
    A("np.column_stack([x,y])", lambda x, y, o: np.column_stack([x, y]), needs="same-shape")
    A("np.block([x,y])", lambda x, y, o: np.block([x, y]), needs="same-shape")
    A("np.append(x,y)", lambda x, y, o: np.append(x, y))
    A("np.where(c,x,y)", lambda x, y, o: np.where(np.asarray(x) > 0, x, y))
    A("np.select([c],[x],default=y)", lambda x, y, o: np.select([np.asarray(x) > 0], [x], default=y), needs="y-scalar-or-same", scalar_literal_ok=True, first_must_be_quantity=True)
    A("np.select([c,c],[x,y])", lambda x, y, o: np.select([np.asarray(x) > 0, np.asarray(x) <= 0], [x, y]), needs="same-shape", first_must_be_quantity=True)
    A("np.choose(i,[x,y])", lambda x, y, o: np.choose(np.zeros(np.shape(x), dtype=int), [x, y]), needs="same-shape")
    A("np.clip(x,y,y)", lambda x, y, o: np.clip(x, y, y), scalar_literal_ok=True, first_must_be_quantity=True)
    A("np.clip(x,None,y)", lambda x, y, o: np.clip(x, None, y), scalar_literal_ok=True, first_must_be_quantity=True)
    A("x.clip(y,y)", lambda x, y, o: x.clip(y, y), scalar_literal_ok=True, first_must_be_quantity=True)
    A("np.insert(x,0,y)", lambda x, y, o: np.insert(x, 0, y), needs="x-1d", scalar_literal_ok=True, first_must_be_quantity=True)
    A("np.put(x,[0],y)", lambda x, y, o: np.put(x, [0], y), needs="x-array", inplace=True, scalar_literal_ok=True, first_must_be_quantity=True)
    A("np.place(x,m,y)", lambda x, y, o: np.place(x, np.ones(x.shape, bool), y), needs="x-array", inplace=True, scalar_literal_ok=True, first_must_be_quantity=True)
    A("np.putmask(x,m,y)", lambda x, y, o: np.putmask(x, np.ones(x.shape, bool), y), needs="x-array", inplace=True, scalar_literal_ok=True, first_must_be_quantity=True)
    A("np.put_along_axis(x,i,y,0)", lambda x, y, o: np.put_along_axis(x, np.zeros((1,) * x.ndim, dtype=int), y, 0), needs="x-array", inplace=True, scalar_literal_ok=True, first_must_be_quantity=True)
    A("np.fill_diagonal(x,y)", lambda x, y, o: np.fill_diagonal(x, y), needs="x-2d", inplace=True, scalar_literal_ok=True, first_must_be_quantity=True)
    A("np.copyto(x,y,where=partial)", lambda x, y, o: np.copyto(x, y, where=(np.arange(x.size).reshape(x.shape) % 2 == 0)), needs="x-array", inplace=True, scalar_literal_ok=True, first_must_be_quantity=True)
    A("np.searchsorted(x,y)", lambda x, y, o: np.searchsorted(np.sort(x), y), needs="x-1d", scalar_literal_ok=True, first_must_be_quantity=True)
    # the same functions with their arguments spelled the other way (positional <-> keyword): handlers that pick arguments apart by hand
    A("np.copyto(x,y,'same_kind',partial)", lambda x, y, o: np.copyto(x, y, "same_kind", (np.arange(x.size).reshape(x.shape) % 2 == 0)), needs="x-array", inplace=True, scalar_literal_ok=True, first_must_be_quantity=True)
    A("np.copyto(x,y,casting=,where=)", lambda x, y, o: np.copyto(x, y, casting="same_kind", where=(np.arange(x.size).reshape(x.shape) % 2 == 1)), needs="x-array", inplace=True, scalar_literal_ok=True, first_must_be_quantity=True)
    A("np.clip(x,min=y,max=y)", lambda x, y, o: np.clip(x, min=y, max=y), scalar_literal_ok=True, first_must_be_quantity=True)
    A("np.clip(x,a_min=y,a_max=None)", lambda x, y, o: np.clip(x, a_min=y, a_max=None), scalar_literal_ok=True, first_must_be_quantity=True)
    A("np.put(x,ind=,v=y)", lambda x, y, o: np.put(x, ind=[0], v=y), needs="x-array", inplace=True, scalar_literal_ok=True, first_must_be_quantity=True)
    A("np.place(x,mask=,vals=y)", lambda x, y, o: np.place(x, mask=np.ones(x.shape, bool), vals=y), needs="x-array", inplace=True, scalar_literal_ok=True, first_must_be_quantity=True)
    A("np.putmask(x,mask=,values=y)", lambda x, y, o: np.putmask(x, mask=np.ones(x.shape, bool), values=y), needs="x-array", inplace=True, scalar_literal_ok=True, first_must_be_quantity=True)
    A("np.insert(x,obj=0,values=y)", lambda x, y, o: np.insert(x, obj=0, values=y), needs="x-1d", scalar_literal_ok=True, first_must_be_quantity=True)
    A("np.searchsorted(a=x,v=y)", lambda x, y, o: np.searchsorted(a=np.sort(x), v=y), needs="x-1d", scalar_literal_ok=True, first_must_be_quantity=True)
    A("np.append(arr=x,values=y)", lambda x, y, o: np.append(arr=x, values=y))
    A("np.diff(x,prepend=y)", lambda x, y, o: np.diff(x, prepend=y), needs="x-1d", scalar_literal_ok=True, first_must_be_quantity=True)
    A("np.diff(x,append=y)", lambda x, y, o: np.diff(x, append=y), needs="x-1d", scalar_literal_ok=True, first_must_be_quantity=True)
    A("np.diff(x,1,-1,y,y)", lambda x, y, o: np.diff(x, 1, -1, y, y), needs="x-1d", scalar_literal_ok=True, first_must_be_quantity=True)
    A("np.isin(element=x,test_elements=y)", lambda x, y, o: np.isin(element=x, test_elements=y))
    A("np.linspace(start=x,stop=y)", lambda x, y, o: np.linspace(start=x, stop=y, num=5), needs="same-shape")
    A("np.isclose(a=x,b=y)", lambda x, y, o: np.isclose(a=x, b=y), scalar_literal_ok=True)
    A("np.allclose(a=x,b=y)", lambda x, y, o: np.allclose(a=x, b=y), scalar_literal_ok=True)
    A("np.intersect1d(ar1=x,ar2=y)", lambda x, y, o: np.intersect1d(ar1=x, ar2=y), needs="1d")
    A("np.union1d(ar1=x,ar2=y)", lambda x, y, o: np.union1d(ar1=x, ar2=y), needs="1d")
    A("np.fill_diagonal(x,val=y)", lambda x, y, o: np.fill_diagonal(x, val=y), needs="x-2d", inplace=True, scalar_literal_ok=True, first_must_be_quantity=True)
    A("np.isin(x,y)", lambda x, y, o: np.isin(x, y))
    A("np.intersect1d(x,y)", lambda x, y, o: np.intersect1d(x, y), needs="1d")
    A("np.union1d(x,y)", lambda x, y, o: np.union1d(x, y), needs="1d")
    A("np.setdiff1d(x,y)", lambda x, y, o: np.setdiff1d(x, y), needs="1d")
    A("np.setxor1d(x,y)", lambda x, y, o: np.setxor1d(x, y), needs="1d")
    A("np.linspace(x,y,5)", lambda x, y, o: np.linspace(x, y, 5), needs="same-shape")
    A("np.geomspace(x,y,5)", lambda x, y, o: np.geomspace(abs(x), abs(y), 5), needs="same-shape")
    A("np.interp(x,y,fp)", lambda x, y, o: np.interp(x, np.sort(np.ravel(y)), np.arange(np.size(y), dtype=float)), needs="y-1d")
    A("np.isclose(x,y)", lambda x, y, o: np.isclose(x, y), scalar_literal_ok=True)
    A("np.allclose(x,y)", lambda x, y, o: np.allclose(x, y), scalar_literal_ok=True)
    A("np.histogram(x,range=(y,y))", lambda x, y, o: np.histogram(x, bins=3, range=(np.ravel(y)[0], np.ravel(y)[0] + abs(np.ravel(y)[0]))), needs="x-array-yq", first_must_be_quantity=True)
    A("np.maximum.reduce-style: np.amax(stack) n/a", None)  # placeholder removed below
    F.pop()

    # ---- item assignment and conversions
    def S(name, fn, **kw):
        F.append(Form(name, fn, "assign", inplace=True, first_must_be_quantity=True, **kw))

    def _seti(idx):
        def f(x, y, o):
            x[idx] = y
        return f

    S("x[0]=y", _seti(0), needs="x-array+y-scalar")
    S("x[:]=y", _seti(slice(None)), needs="x-array")
    S("x[mask]=y", lambda x, y, o: x.__setitem__(np.ones(x.shape, bool), y if isinstance(y, list) else (y.ravel()[0] if np.ndim(y) else y)), needs="x-array")
    S("x[[0,1]]=y", lambda x, y, o: x.__setitem__([0, 1], y[:2] if isinstance(y, list) else (y.ravel()[0] if np.ndim(y) else y)), needs="x-array")
    S("x[...]=y", _seti(Ellipsis), needs="x-array")
    F.append(Form("x.to(unit(y))", lambda x, y, o: x.to(y.units), "convert", needs="both-q"))
    F.append(Form("x.in_units(unit(y))", lambda x, y, o: x.in_units(y.units), "convert", needs="both-q"))
    F.append(Form("x.to_value(unit(y))", lambda x, y, o: x.to_value(y.units), "convert", needs="both-q"))
    F.append(Form("x.to(str)", lambda x, y, o: x.to(str(y.units)), "convert", needs="both-q"))
    F.append(Form("x.convert_to_units(unit(y))", lambda x, y, o: x.convert_to_units(y.units), "convert", inplace=True, needs="both-q"))
    F.append(Form("unit(x).get_conversion_factor(unit(y))", lambda x, y, o: x.units.get_conversion_factor(y.units), "convert", needs="both-q"))
    F.append(Form("unit(x)+unit(y)", lambda x, y, o: x.units + y.units, "unitop", needs="both-q"))
    F.append(Form("unit(x)-unit(y)", lambda x, y, o: x.units - y.units, "unitop", needs="both-q"))
    F.append(Form("unyt_array([x,y])", lambda x, y, o: __import__("unyt").unyt_array([x, y]), "arrayfunc", needs="both-q-scalar"))
    return F


def applicable(form, dx, dy):
    """shape/kind preconditions of a form (soundness: only calls NumPy itself accepts)"""
    n = form.needs
    kx, ky = dx[0], dy[0]
    if "hq" in (kx, ky) and "str" in form.name:
        return False  # a unit *string* denotes the registry's current definition, not the captured unit object
    kx = "q" if kx in ("zq", "hq") else kx
    ky = "q" if ky in ("zq", "hq") else ky
    if "barez" in (kx, ky) and (dx[-1] == "s" if kx == "barez" else dy[-1] == "s"):
        return False  # a scalar cannot contain a zero next to a non-zero
    kx = "bare" if kx == "barez" else kx
    ky = "bare" if ky == "barez" else ky
    sx = dx[-1] if kx not in ("qlist",) else "a"
    sy = dy[-1] if ky not in ("qlist",) else "a"
    if ky == "zero" and sy == "list":
        sy = "a"
    if form.first_must_be_quantity and kx not in ("q", "dimless", "pct"):
        return False
    if form.inplace and kx not in ("q", "dimless", "pct"):
        return False
    if form.inplace and sx == "s":
        return False
    if form.inplace and form.group in ("operator",) and SHAPES[sx] != np.broadcast_shapes(SHAPES[sx], SHAPES[sy]):
        return False
    if form.outkind and (kx == "qlist" or ky == "qlist"):
        return False
    if n is None:
        return True
    if n == "x-array-yq":
        return sx != "s" and kx == "q" and ky == "q"
    if form.group == "assign" and ky == "qlist" and sx != "a":
        return False
    if n == "x-array":
        if sx == "s" or kx not in ("q", "dimless", "pct"):
            return False
        # targets accept a scalar or same-shaped source
        return sy == "s" or SHAPES[sy] == SHAPES[sx] or form.name.startswith("np.histogram") or form.name.startswith("x[")
    if n == "x-1d":
        return sx == "a" and kx in ("q", "dimless", "pct") and sy in ("s", "a")
    if n == "x-2d":
        return sx == "b" and kx in ("q", "dimless", "pct") and sy == "s"
    if n == "1d":
        return sx in ("a",) and sy in ("a",)
    if n == "y-1d":
        return sy == "a" and ky != "qlist" and kx != "qlist"
    if n == "same-shape":
        return sx == sy and kx != "qlist" and ky != "qlist"
    if n == "y-scalar-or-same":
        return sy == "s" and kx != "qlist"
    if n == "x-array+y-scalar":
        return sx != "s" and sy == "s" and kx in ("q", "dimless", "pct")
    if n == "both-q":
        return kx == "q" and ky == "q"
    if n == "both-q-scalar":
        return kx == "q" and ky == "q" and sx == "s" and sy == "s"
    return True


def expectation(form, dx, dy, dimx, dimy):
    """-> 'must-raise' | 'eq-special' | 'unjudged:<why>' | 'control'"""
    kx, ky = dx[0], dy[0]
    kx = "bare" if kx == "barez" else kx
    ky = "bare" if ky == "barez" else ky
    if kx == "zero" or ky == "zero":
        return "unjudged:all-zero bare operand (documented exception)"
    if ky == "zq" and dimy == T.ZERO:
        ky = "dimless"
    if kx == "zq" and dimx == T.ZERO:
        kx = "dimless"
    if dimx == dimy:
        return "control"
    dimless_involved = dimx == T.ZERO or dimy == T.ZERO
    if (dimx, dimy) in EM_PAIRS:
        return "unjudged:documented CGS<->SI electromagnetic counterpart (conversion is supported; C03/C10)"
    if form.name.startswith(("np.isclose", "np.allclose")) and (kx in ("dimless", "pct", "bare") or ky in ("dimless", "pct", "bare")):
        return "unjudged:isclose/allclose with a unit-less or dimensionless operand adopts the other unit (comparison exception)"
    if form.name.startswith("np.copyto") and ky == "bare":
        return "unjudged:np.copyto from a bare array is plain ndarray copy (handler documents generality)"
    if form.comparison in ("eq", "ne"):
        if dimless_involved:
            return "unjudged:==/!= with a dimensionless operand compares numbers (library comment; not claimed)"
        return "eq-special"
    if form.comparison == "order" and dimless_involved:
        return "unjudged:ordering with a dimensionless operand (documented exception)"
    bare_scalar = (ky == "bare" and dy[-1] == "s") or (kx == "bare" and dx[-1] == "s")
    if form.group in ("arrayfunc", "assign") and bare_scalar and form.scalar_literal_ok:
        return "unjudged:bare Python number adopts the target unit in array-function handlers / item assignment (pinned by the test-suite)"
    if form.name.startswith("np.diff(") and ky == "bare":
        return "unjudged:bare prepend/append values of np.diff are fill values taken in the array's unit, as for np.pad / np.ediff1d (not claimed)"
    if form.group == "assign" and ky in ("dimless",):
        return "unjudged:a[i] = dimensionless quantity adopts the unit (pinned by the test-suite)"
    if form.group == "assign" and ky == "bare":
        return "unjudged:a[i] = bare array is plain ndarray assignment (pinned by the test-suite)"
    return "must-raise"


def run_cell(form, dx, dy, dimx, dimy, known, part):
    x, y = make(dx), make(dy)
    out = None
    if form.outkind:
        try:
            shp = np.broadcast_shapes(np.shape(x), np.shape(y))
        except ValueError:
            return
        if form.comparison:
            out = np.zeros(shp, dtype=bool)
            if form.outkind == "q":
                return  # boolean results are not written into quantity buffers
        else:
            from unyt import unyt_array

            out = unyt_array(np.full(shp, 7.0), "kg") if form.outkind == "q" else np.full(shp, 7.0)
    exp = expectation(form, dx, dy, dimx, dimy)
    before = (snap(x), snap(y), snap(out) if out is not None else None)
    part.ev()
    cell = (form.name, dx[0], dy[0])
    try:
        res = form.fn(x, y, out)
        raised = None
    except Exception as e:
        res = None
        raised = e
    if exp.startswith("unjudged"):
        part.count(exp)
        return
    if exp == "control":
        part.count("control cells")
        if raised is None:
            part.count("control cells succeeded")
        else:
            part.count(f"control raised: {form.group}")
        return
    part.nt(cell + (T.dim_name(dimx), T.dim_name(dimy), dx[-1], dy[-1]))
    if form.outkind:
        part.count("non-trivial cells with out=")
    key_tail = f"{form.name}:{dx[0]}|{dy[0]}"
    if exp == "eq-special":
        part.count("==/!= exception cells")
        if raised is not None:
            return  # raising is also 'never returns a value'
        want = form.comparison == "ne"
        arr = np.asarray(res)
        if arr.dtype != bool or not np.all(arr == want):
            core.classify(known, part, f"C01:eq-special-wrong:{key_tail}", {"form": form.name, "x": dx, "y": dy, "result": repr(res)[:120]})
        if out is not None and not np.all(np.asarray(out) == want):
            core.classify(known, part, f"C01:eq-special-out-wrong:{key_tail}", {"form": form.name, "x": dx, "y": dy})
        if arr.shape != np.broadcast_shapes(np.shape(x), np.shape(y)):
            part.count("==/!= exception returned a non-broadcast shape (recorded, not judged)")
        after = (snap(x), snap(y))
        if not (same_snap(before[0], after[0]) and same_snap(before[1], after[1])):
            core.classify(known, part, f"C01:operand-changed:{key_tail}", {"form": form.name, "x": dx, "y": dy})
        return
    # must-raise
    if raised is None:
        core.classify(known, part, f"C01:no-raise:{key_tail}", {
            "form": form.name, "x": dx, "y": dy, "dims": [T.dim_name(dimx), T.dim_name(dimy)], "returned": repr(res)[:160]})
        return
    part.count("raised: " + type(raised).__name__)
    after = (snap(x), snap(y), snap(out) if out is not None else None)
    for i, nm in enumerate(("x", "y", "out")):
        if before[i] is None:
            continue
        if not same_snap(before[i], after[i]):
            core.classify(known, part, f"C01:operand-changed-after-refusal:{nm}:{key_tail}", {
                "form": form.name, "x": dx, "y": dy, "which": nm, "before": [str(b) for b in before[i][:3]],
                "after": [str(a) for a in after[i][:3]], "exception": type(raised).__name__})
    if len(part.samples) < 3:
        part.sample({"form": form.name, "x": dx, "y": dy, "raised": type(raised).__name__})


def operand_descs(unit_a, unit_b, shapes):
    """ordered pairs of operand descriptors for units A (left) and B (other dimension)"""
    out = []
    for sx, sy in shapes:
        qa, qb = ("q", unit_a, sx), ("q", unit_b, sy)
        out.append((qa, qb))
    return out


def part_cells(payload):
    known = core.Known("C01")
    part = core.Part()
    forms = _forms()
    unit_dims = payload["unit_dims"]
    unit_dims = {k: tuple(T.Fr(x) for x in v) for k, v in unit_dims.items()}
    for (ua, ub, shapes, kinds) in payload["cells"]:
        for form in forms:
            for sx, sy in shapes:
                pairs = []
                if "qq" in kinds:
                    pairs.append((("q", ua, sx), ("q", ub, sy)))
                if "kinds" in kinds:
                    qa = ("q", ua, sx)
                    others = [("dimless", sy), ("pct", sy), ("bare", sy), ("barez", sy), ("zero", sy), ("zero", "list"), ("qlist", ub),
                              ("q", ua, sy)]
                    others += [("zq", "dimensionless", sy), ("zq", "%", sy), ("zq", ub, sy)]
                    for o in others:
                        pairs.append((qa, o))
                        pairs.append((o, qa))
                    pairs.append((("dimless", sx), ("pct", sy)))
                    pairs.append((("dimless", sx), ("zq", ua, sy)))
                    pairs.append((("zq", ua, sx), ("pct", sy)))
                for dx, dy in pairs:
                    if not applicable(form, dx, dy):
                        continue
                    dimx, dimy = dim_of(dx, unit_dims), dim_of(dy, unit_dims)
                    try:
                        run_cell(form, dx, dy, dimx, dimy, known, part)
                    except core.HarnessError:
                        raise
    if payload.get("history"):
        for form in forms:
            for sx, sy in SHAPE_PAIRS_Q:
                for dx, dy in ((("hq", "old", sx), ("hq", "new", sy)), (("hq", "new", sx), ("hq", "old", sy))):
                    if applicable(form, dx, dy):
                        run_cell(form, dx, dy, dim_of(dx, unit_dims), dim_of(dy, unit_dims), known, part)
    return part


SHAPE_PAIRS_Q = [("s", "s"), ("a", "a"), ("a", "s"), ("s", "a"), ("b", "a"), ("c", "a"), ("b", "b")]


def run(ctx):
    import random

    ctx.rule = (
        "enumerated: ~190 operation forms (20 same-dimension ufuncs in call/outer/out=quantity/out=bare/.at forms, "
        "operators, in-place operators, 35 array functions that merge arrays, 5 item-assignment forms, 6 conversion "
        "routes, Unit+Unit) x operand-kind pairs {quantity other dimension, dimensionless, percent, bare scalar, bare "
        "array, zero, list of quantities, same unit (control)} in both orders x dimension pairs (quick: one "
        "representative unit per distinct dimension, seeded sample of ordered pairs; thorough: all ordered pairs of "
        "representatives + all atomic symbol pairs on the ufunc/operator forms) x 7 shape pairs. non-trivial = "
        "distinct (form, kinds, dimension pair, shapes) cells where the oracle demands a refusal or the ==/!= answer"
    )
    ctx.assumptions = [
        "dimension of each operand comes from vf/oracle/table.py, not from unyt",
        "unjudged by design (existing tests pin them): bare Python numbers in array-function handlers and item assignment, "
        "a[i]=dimensionless quantity, ==/!= against a dimensionless operand; all counted in the histogram",
        "after a refusal numbers are compared numerically (the statement says numbers and units, not dtype)",
    ]
    reps = {}
    for s in sorted(T.ROWS):
        r = T.ROWS[s]
        if r["dim"] == T.ZERO or r["offset"] != 0:
            continue
        reps.setdefault(r["dim"], s)
    # prefer everyday representatives
    for pref in ["m", "g", "s", "K", "rad", "A", "cd", "J", "N", "W", "Pa", "V", "T", "C", "Hz", "G", "statC", "B"]:
        reps[T.ROWS[pref]["dim"]] = pref
    rep_units = sorted(reps.values())
    SPECIAL = ["degC", "degF", "mdegC", "delta_degF", "lat", "lon", "dB", "Np", "km", "ug", "GeV", "Myr", "mrad", "uG"]
    unit_dims = {u: [str(x) for x in T.ROWS[u]["dim"]] for u in T.ROWS}
    for u in SPECIAL:
        unit_dims[u] = [str(x) for x in R.atom(u)[1]]
    pairs = [(a, b) for a in rep_units for b in rep_units if a != b]
    rnd = random.Random(ctx.seed)
    cells = []
    if ctx.quick:
        sample = rnd.sample(pairs, 96)
        for i, (a, b) in enumerate(sample):
            shapes = [SHAPE_PAIRS_Q[i % len(SHAPE_PAIRS_Q)], SHAPE_PAIRS_Q[(i + 3) % len(SHAPE_PAIRS_Q)]]
            cells.append((a, b, shapes, ["qq"] + (["kinds"] if i % 4 == 0 else [])))
    else:
        for i, (a, b) in enumerate(pairs):
            cells.append((a, b, SHAPE_PAIRS_Q, ["qq"] + (["kinds"] if i % 6 == 0 else [])))
        allsyms = [s for s in sorted(T.ROWS) if T.ROWS[s]["dim"] != T.ZERO]
        allpairs = [(a, b) for a in allsyms for b in allsyms if T.ROWS[a]["dim"] != T.ROWS[b]["dim"]]
        for i, (a, b) in enumerate(allpairs):
            cells.append((a, b, [SHAPE_PAIRS_Q[i % len(SHAPE_PAIRS_Q)]], ["qq"]))
    # special units (offset scales, prefixed offset, lat/lon, logarithmic, prefixed) against every
    # representative dimension, both orders, all forms
    k = 0
    for u in SPECIAL:
        for r in (rep_units if not ctx.quick else rnd.sample(rep_units, 8)):
            if tuple(unit_dims[u]) == tuple(str(x) for x in T.ROWS[r]["dim"]):
                continue
            for a, b in ((u, r), (r, u)):
                cells.append((a, b, [SHAPE_PAIRS_Q[k % len(SHAPE_PAIRS_Q)]], ["qq"]))
                k += 1
    ctx.extra["special_units"] = SPECIAL
    ctx.extra["representative_units"] = rep_units
    ctx.extra["dimension_pairs_run"] = len(cells)
    ctx.extra["forms"] = len(_forms())
    unit_dims["dimensionless"] = [str(x) for x in T.ZERO]
    unit_dims["%"] = [str(x) for x in T.ZERO]
    payloads = [{"cells": sh, "unit_dims": unit_dims} for sh in core.shards(cells, 32)]
    payloads[0]["history"] = True
    ctx.merge(core.pmap(MOD, "part_cells", payloads))
    c = ctx.hist.get("control cells", 0)
    ok = ctx.hist.get("control cells succeeded", 0)
    ctx.extra["control_success_rate"] = round(ok / c, 4) if c else None
    if c and ok / c < 0.80:
        raise core.HarnessError(f"only {ok}/{c} same-dimension control cells succeed: everything raises, check is vacuous")


def replay(ctx, data):
    run(ctx)
