"""C10 -- unit-system base conversion stays inside the system and preserves the quantity.

Exhaustive: 7 built-in systems x all atomic symbols of the independent table; generated:
user-defined UnitSystems (base units drawn per dimension, quantity-valued bases, overrides,
with/without an MKS current) x atomic and compound units.  For each (system, unit):
either UnitsNotReducible, or the result's unit atoms lie inside what the system was
*constructed* with (our own record, not the mutable units_map), the dimension is preserved (or
is the documented CGS<->SI electromagnetic counterpart), converting back gives the original
numbers, copy / in-place / Unit-level / named (in_cgs, in_mks) routes agree, applying the
conversion twice changes nothing, and the answer does not depend on which other dimensions
the system object served before.  Inconsistent constructions must raise IllDefinedUnitSystem.
"""

import itertools

import numpy as np
from hypothesis import strategies as st

from vf import core
from vf.gen import units as G
from vf.oracle import resolve as R
from vf.oracle import table as T

MOD = "vf.checks.c10"
# what each built-in system is constructed with (hand-copied record of its definition: base units, overrides)
BUILTIN = {
    "cgs": ({"length": "cm", "mass": "g", "time": "s", "temperature": "K", "angle": "rad", "current_mks": None, "luminous_intensity": "cd", "logarithmic": "Np"},
            ["erg", "erg/g", "dyne/cm**2", "dyne", "gauss", "esu", "statA", "erg/s"]),
    "mks": ({"length": "m", "mass": "kg", "time": "s", "temperature": "K", "angle": "rad", "current_mks": "A", "luminous_intensity": "cd", "logarithmic": "Np"},
            ["J", "J/kg", "Pa", "N", "T", "C", "Hz", "W", "V", "F", "H", "ohm", "Wb", "lm"]),
    "imperial": ({"length": "ft", "mass": "lb", "time": "s", "temperature": "R", "angle": "rad", "current_mks": "A", "luminous_intensity": "cd", "logarithmic": "Np"},
                 ["lbf", "ft*lbf", "lbf/ft**2", "hp"]),
    "galactic": ({"length": "kpc", "mass": "Msun", "time": "Myr", "temperature": "K", "angle": "rad", "current_mks": "A", "luminous_intensity": "cd", "logarithmic": "Np"},
                 ["keV", "uG"]),
    "solar": ({"length": "AU", "mass": "Mearth", "time": "yr", "temperature": "K", "angle": "rad", "current_mks": "A", "luminous_intensity": "cd", "logarithmic": "Np"}, []),
    "geometrized": ({"length": "l_geom", "mass": "m_geom", "time": "t_geom", "temperature": "K", "angle": "rad", "current_mks": "A", "luminous_intensity": "cd", "logarithmic": "Np"}, []),
    "planck": ({"length": "l_pl", "mass": "m_pl", "time": "t_pl", "temperature": "T_pl", "angle": "rad", "current_mks": "A", "luminous_intensity": "cd", "logarithmic": "Np"},
               ["E_pl", "q_pl"]),
}
# Gaussian <-> SI counterpart dimensions (hand-written pairing)
EM_PAIRS = [(T.CHARGE, T.CHARGE_CGS), (T.CURRENT, T.CURRENT_CGS), (T.BFIELD, T.BFIELD_CGS), (T.EPOT, T.EPOT_CGS), (T.RESIST, T.RESIST_CGS)]
GAUSSIAN_ATOMS = {"statC", "esu", "statA", "G", "gauss", "statV", "statohm", "Mx", "Oe"}
GEN_BASES = {
    "length": ["m", "cm", "km", "ft", "pc", "kpc", "AU", "mile", "angstrom", "Q:3*Mpc", "Q:2.5*cm"],
    "mass": ["kg", "g", "lb", "Msun", "mg", "Mearth", "Q:10*kg"],
    "time": ["s", "yr", "Myr", "ms", "hr", "day", "Q:2*s"],
    "temperature": ["K", "R", "mK", "K", "K"],
    "angle": ["rad", "degree", "arcmin", "rad"],
    "current_mks": ["A", "A", None, "mA", "kA"],
}
GEN_OVERRIDES = [("energy", ["erg", "J", "keV", "kWh", "ft*lbf"]), ("force", ["N", "dyne", "lbf"]), ("pressure", ["Pa", "bar", "psi", "dyne/cm**2"]),
                 ("power", ["W", "hp", "erg/s"]), ("velocity", ["km/s", "mile/hr", "c"]), ("frequency", ["Hz", "1/s"]), ("area", ["acre", "m**2"])]
BAD_BASES = [("length", "kg"), ("mass", "m"), ("time", "K"), ("temperature", "s"), ("angle", "m"), ("length", "J"), ("mass", "N")]
_COUNTER = itertools.count()


def atoms_of_string(u):
    import sympy
    from unyt._parsing import parse_unyt_expr

    return {str(a) for a in parse_unyt_expr(u).atoms(sympy.Symbol)}


def allowed_atoms(bases, overrides):
    out = set()
    for v in bases.values():
        if v is not None:
            out |= atoms_of_string(v.split(":", 1)[1].split("*", 1)[1] if v.startswith("Q:") else v)
    for o in overrides:
        out |= atoms_of_string(o)
    return out


def make_system(spec, name=None):
    """construct a user-defined UnitSystem from our own record of it"""
    from unyt import UnitSystem, unyt_quantity

    name = name or f"vf{next(_COUNTER)}_{abs(hash(repr(spec))) % 10**8}"

    def val(v):
        if v is not None and v.startswith("Q:"):
            c, u = v[2:].split("*", 1)
            return unyt_quantity(float(c), u)
        return v

    b = spec["bases"]
    us = UnitSystem(name, val(b["length"]), val(b["mass"]), val(b["time"]), temperature_unit=val(b["temperature"]), angle_unit=val(b["angle"]),
                    current_mks_unit=val(b["current_mks"]))
    for dim, u in spec["overrides"]:
        us[dim] = u
    return us


@st.composite
def system_spec(draw):
    bases = {d: draw(st.sampled_from(pool)) for d, pool in GEN_BASES.items()}
    bases["luminous_intensity"] = "cd"
    bases["logarithmic"] = "Np"
    k = draw(st.integers(0, 3))
    ov = []
    for dim, pool in draw(st.permutations(GEN_OVERRIDES))[:k]:
        ov.append((dim, draw(st.sampled_from(pool))))
    return {"bases": bases, "overrides": ov}


@st.composite
def case(draw):
    spec = draw(system_spec())
    units = [R.render(draw(G.unit_ast(max_factors=2, mild=True, coeff=False))) if draw(st.booleans()) else draw(st.sampled_from(G.SYMBOLS)) for _ in range(6)]
    return {"spec": spec, "units": units, "vals": [draw(st.integers(1, 80)) / 8 for _ in range(3)], "warm": [draw(st.sampled_from(["energy", "force", "velocity", "pressure", "power", "length", "mass"])) for _ in range(2)],
            "bad": draw(st.sampled_from(BAD_BASES)), "spec2": draw(system_spec()), "bad_same_name": draw(st.booleans())}


def _is_em_counterpart(d1, d2):
    for a, b in EM_PAIRS:
        if (d1, d2) in ((a, b), (b, a)):
            return True
    return False


def judge_unit(sysname, sysobj, bases, overrides, uname, vals, part, out, tag, reg=None):
    """all clauses for one (system, unit)"""
    import sympy
    from unyt import Unit, unyt_array
    from unyt.exceptions import UnitsNotReducible, UnytError

    part.ev()
    try:
        u = Unit(uname, registry=reg)
    except Exception:
        return
    if u.base_offset != 0 and u.dimensions != Unit("K").dimensions and False:
        return
    s = abs(float(u.base_value))
    if not np.isfinite(s) or s == 0 or abs(np.log10(s)) > 60:
        part.count("excluded_range")
        return
    x = unyt_array(np.array(vals, dtype=float), u)
    ctx = {"system": tag, "unit": uname}

    def bad(key, **kw):
        d = dict(ctx)
        d.update({k: repr(v)[:160] for k, v in kw.items()})
        out.append((f"C10:{key}", d))

    try:
        r = x.in_base(sysname)
    except UnitsNotReducible:
        part.count("UnitsNotReducible")
        return
    except (ZeroDivisionError, OverflowError):
        part.count("excluded_range")  # a base-unit scale under/overflowed in float: not the claim's subject
        return
    except Exception as e:
        esc = core.escaped_from_library(e)
        bad(f"in_base-raises:{type(e).__name__}", error=str(e)[:200], where=esc)
        return
    rs_ = abs(float(r.units.base_value))
    if not np.isfinite(rs_) or rs_ == 0 or abs(np.log10(rs_)) > 200:
        part.count("excluded_range")
        return
    d0, d1 = R.dimvec_of(u.dimensions), R.dimvec_of(r.units.dimensions)
    em = False
    if d0 != d1:
        if _is_em_counterpart(d0, d1):
            em = True
            part.count("EM counterpart")
        else:
            bad("dimension-changed", got=T.dim_name(d1), want=T.dim_name(d0), result=r.units)
            return
    allowed = allowed_atoms(bases, overrides)
    if reg is not None and r.units.registry is not reg and getattr(r.units.registry, 'lut', None) is not reg.lut:
        bad('result-left-its-registry', result=r.units)
    if bases["current_mks"] is None:
        allowed |= GAUSSIAN_ATOMS  # the documented Gaussian counterparts of SI electromagnetic units
    atoms = {str(a) for a in r.units.expr.atoms(sympy.Symbol)}
    if bases["current_mks"] is None:
        # the library keeps an SI prefix on the Gaussian counterpart (mT -> mG): accepted as "declared unit with a prefix"
        atoms = {a for a in atoms if not any(a.endswith(g) and (a[: -len(g)] in T.PREFIXES) for g in GAUSSIAN_ATOMS)}
    emkey = ":em" if (d0[5] != 0 or any(x_.denominator != 1 for x_ in d0) or em) else ""
    if not atoms <= allowed:
        bad(f"outside-system{emkey}", result=r.units, foreign=sorted(atoms - allowed))
    else:
        rs = abs(float(r.units.base_value))
        if abs(float(u.base_value) / float(r.units.base_value) - 1) > 1e-12 and str(u.expr) != str(r.units.expr):
            part.nt((tag if tag in BUILTIN else "generated", uname if tag in BUILTIN else T.dim_name(d0)))
    # converts back
    try:
        back = r.to(u)
        if not np.allclose(np.asarray(back), vals, rtol=1e-10, atol=1e-10 * abs(float(u.base_offset)) if u.base_offset else 0):
            bad("round-trip", back=back, original=vals, via=r)
    except UnytError as e:
        if not em:
            bad("round-trip-raises", error=f"{type(e).__name__}: {e}"[:160], via=r.units)
    # Unit-level
    try:
        be = u.get_base_equivalent(sysname)
        if not (be == r.units and abs(float(be.base_value) / float(r.units.base_value) - 1) < 1e-14):
            bad(f"get_base_equivalent-disagrees{emkey}", unit_level=be, array_level=r.units)
    except UnitsNotReducible:
        bad("get_base_equivalent-refuses-where-in_base-answers", array_level=r.units)
    except Exception as e:
        bad(f"get_base_equivalent-raises:{type(e).__name__}", error=str(e)[:160])
    # in-place twin
    y = x.copy()
    try:
        y.convert_to_base(sysname)
        if not (y.units == r.units) or not np.allclose(np.asarray(y), np.asarray(r), rtol=1e-14, atol=0):
            bad("convert_to_base-disagrees", inplace=y, copy=r)
    except Exception as e:
        bad(f"convert_to_base-raises:{type(e).__name__}", error=str(e)[:160])
    # named routes
    if tag in ("cgs", "mks"):
        z = x.in_cgs() if tag == "cgs" else x.in_mks()
        if not (z.units == r.units and str(z.units) == str(r.units)) or not np.array_equal(np.asarray(z), np.asarray(r)):
            bad(f"in_{tag}-disagrees-with-in_base", named=z, generic=r)
    # idempotence
    try:
        r2 = r.in_base(sysname)
        if not (r2.units == r.units and abs(float(r2.units.base_value) / float(r.units.base_value) - 1) < 1e-14):
            bad(f"not-idempotent:unit{emkey}", once=r.units, twice=r2.units)
        elif not np.allclose(np.asarray(r2), np.asarray(r), rtol=4e-16, atol=0):
            bad("not-idempotent:numbers", once=r, twice=r2)
    except Exception as e:
        bad(f"second-application-raises:{type(e).__name__}", error=str(e)[:160], once=r.units)
    if len(part.samples) < 2 and str(r.units.expr) != str(u.expr):
        part.sample({"system": tag, "unit": uname, "values": vals, "in_base": repr(r)[:100]})


def part_builtin(payload):
    known = core.Known("C10")
    part = core.Part()
    for sysname, uname in payload["pairs"]:
        out = []
        bases, overrides = BUILTIN[sysname]
        judge_unit(sysname, None, bases, overrides, uname, [1.5, 2.0, 0.25], part, out, sysname)
        for key, det in out:
            core.classify(known, part, key, det)
    return part


def judge_case(c, part):
    from unyt import UnitSystem
    from unyt.exceptions import IllDefinedUnitSystem

    out = []
    spec = c["spec"]
    try:
        us = make_system(spec)
    except Exception as e:
        out.append((f"C10:valid-system-rejected:{type(e).__name__}", {"spec": spec, "error": str(e)[:200]}))
        return out
    cold = make_system(spec)  # same definition, never asked for anything else
    # warm the first object with other dimensions (memoisation in units_map must not matter)
    for d in c["warm"]:
        try:
            us[d]
        except Exception:
            pass
    bases, overrides = spec["bases"], [u for _, u in spec["overrides"]]
    for uname in c["units"]:
        o1 = []
        judge_unit(us.name, us, bases, overrides, uname, c["vals"], part, o1, "generated")
        out += o1
        # order independence: the cold twin gives the same answer
        try:
            from unyt import unyt_array

            a = unyt_array(np.array(c["vals"]), uname).in_base(us.name)
            b = unyt_array(np.array(c["vals"]), uname).in_base(cold.name)
            if not (np.all(np.isfinite(np.asarray(a))) and np.isfinite(float(a.units.base_value)) and float(a.units.base_value) != 0):
                part.count("excluded_range")
            elif not (a.units == b.units and str(a.units) == str(b.units) and np.array_equal(np.asarray(a), np.asarray(b), equal_nan=True)):
                out.append(("C10:depends-on-request-history", {"unit": uname, "warm": repr(a)[:100], "cold": repr(b)[:100], "spec": spec, "warmed_with": c["warm"]}))
        except Exception:
            pass
    # quantities whose units live in a private registry with code units (built-in target systems)
    from unyt.unit_registry import UnitRegistry
    import unyt.dimensions as D

    reg = UnitRegistry()
    reg.add("code_length", float(c["vals"][0]) * 3.0, D.length)
    reg.add("code_mass", float(c["vals"][1]) * 7.0, D.mass)
    reg.add("code_time", float(c["vals"][2]) * 0.5, D.time)
    for uname in ("code_length", "code_mass/code_length**3", "code_length*km/code_time", "code_mass*code_length**2/code_time**2", "g*code_length/s**2"):
        for sysname in ("cgs", "mks", "galactic"):
            o1 = []
            judge_unit(sysname, None, *BUILTIN[sysname], uname, c["vals"], part, o1, sysname + "+code-units", reg=reg)
            out += [(k.replace("C10:", "C10:code-units:", 1), d) for k, d in o1]
    # ... and in a private registry that gives the symbols the target systems are made of (and the ones the quantity is written
    # in) other sizes: the answer is computed with, and stays in, the quantity's own registry
    reg2 = UnitRegistry()
    for k_, sym in enumerate(("Msun", "pc", "yr", "g", "m", "s", "K", "erg", "J", "lb", "ft", "AU", "Mearth")):
        try:
            reg2.modify(sym, float(reg2.lut[sym][0]) * (1.5 + 0.25 * ((k_ + int(abs(c["vals"][0]) * 8)) % 5)))
        except Exception:
            part.count("modify refused")
    pool_ = ("Msun", "kpc", "km", "g/cm**3", "Msun/kpc**3", "J", "erg/s", "lb*ft/s**2", "AU/yr", "Mearth*m**2/s**2", "K*s")
    k0 = int(abs(c["vals"][1]) * 8) % len(pool_)
    for uname in (pool_[k0], pool_[(k0 + 4) % len(pool_)], pool_[(k0 + 7) % len(pool_)]):
        for sysname in ("cgs", "mks", "galactic", "imperial", "solar"):
            o1 = []
            judge_unit(sysname, None, *BUILTIN[sysname], uname, c["vals"], part, o1, sysname + "+rescaled-symbols", reg=reg2)
            out += [(k.replace("C10:", "C10:rescaled-symbols:", 1), d) for k, d in o1]
            # the numbers: the same quantity converted by name in its own registry
            try:
                x_ = unyt_array(np.array(c["vals"], dtype=float), uname, registry=reg2)
                r_ = x_.in_base(sysname)
                part.ev()
                want = x_.to(str(r_.units))
                if want.units.registry is not reg2 and getattr(want.units.registry, "lut", None) is not reg2.lut:
                    continue
                if not np.allclose(np.asarray(r_), np.asarray(want), rtol=1e-12, atol=0):
                    out.append(("C10:rescaled-symbols:in_base-differs-from-conversion-by-name", {"system": sysname, "unit": uname, "in_base": repr(r_)[:100], "to(same unit string)": repr(want)[:100]}))
                else:
                    part.nt(("rescaled-symbols", sysname, uname))
            except Exception:
                pass
    # the same name defined again with other base units: the name now means the new definition
    live_spec = spec
    if c.get("spec2") is not None:
        spec2 = c["spec2"]
        try:
            us2 = make_system(spec2, name=us.name)
            live_spec = spec2
            part.count("system name re-used with another definition")
            for uname in c["units"][:4]:
                o1 = []
                judge_unit(us2.name, us2, spec2["bases"], [u for _, u in spec2["overrides"]], uname, c["vals"], part, o1, "generated")
                out += [(k.replace("C10:", "C10:redefined-name:", 1), dict(d, first_definition=spec, second_definition=spec2)) for k, d in o1]
        except Exception as e:
            out.append((f"C10:valid-system-rejected:{type(e).__name__}", {"spec": spec2, "error": str(e)[:200], "name_reused": True}))
    # inconsistent construction must be rejected - and leave nothing behind under that name
    dim, wrong = c["bad"]
    b2 = dict(spec["bases"])
    b2[dim] = wrong
    part.ev()
    same = bool(c.get("bad_same_name"))
    badname = us.name if same else None
    try:
        made = make_system({"bases": b2, "overrides": []}, name=badname)
        badname = made.name
        out.append((f"C10:inconsistent-system-accepted:{dim}={wrong}", {"bases": b2}))
    except IllDefinedUnitSystem:
        part.nt(("rejected", dim, wrong))
    except Exception as e:
        part.count(f"inconsistent system rejected with {type(e).__name__}")
        part.nt(("rejected", dim, wrong))
    if same:
        # the valid system registered under that name still answers, inside its own units
        part.count("rejected construction under the name of a registered system")
        for uname in c["units"][:3]:
            o1 = []
            judge_unit(us.name, None, live_spec["bases"], [u for _, u in live_spec["overrides"]], uname, c["vals"], part, o1, "generated")
            out += [(k.replace("C10:", "C10:after-rejected-construction:", 1), dict(d, rejected_bases=b2, registered=live_spec)) for k, d in o1]
    return out


def part_random(payload):
    known = core.Known("C10")
    part = core.Part()
    core.hyp_explore(part, known, case(), judge_case, payload["n"], payload["seed"], label="C10:systems")
    return part


def run(ctx):
    syms = list(G.SYMBOLS)
    extra = ["km", "mK", "kg*m**2/s**2", "erg/s", "N*m", "J/K", "W/m**2", "km/s", "g/cm**3", "Msun/pc**3", "mT", "uG", "kV", "mA", "C/m**2", "V/m", "T*m**2",
             "A*s", "ohm*m", "J/mol", "cm**-3", "1/s", "m**(3/2)", "sqrt(g)*sqrt(cm)/s", "kpc*Msun/Myr**2", "lbf*ft", "psi", "hp", "BTU", "degC", "degF", "lat", "dB"]
    pairs = [(s, u) for s in BUILTIN for u in syms + extra]
    ctx.rule = (
        f"exhaustive: 7 built-in systems x ({len(syms)} atomic symbols of the independent table + {len(extra)} prefixed/compound units) = {len(pairs)} "
        "(system, unit) pairs; Hypothesis: user-defined systems (base units per dimension incl. quantity-valued bases, 0-3 overrides, with/without MKS "
        "current) x 6 atomic/compound units each, a warmed and a cold copy of every system, one inconsistent construction per case. "
        "non-trivial = distinct (system, unit) / (generated, dimension) whose conversion factor != 1"
    )
    ctx.assumptions = [
        "allowed atoms = atoms of the base units and overrides the system was constructed with (our own record); for systems without an MKS current the Gaussian unit names are allowed for electromagnetic dimensions",
        "round trip tolerance rel 1e-10; UnitsNotReducible is always an acceptable answer",
    ]
    ctx.exhaustive = True
    ctx.merge(core.pmap(MOD, "part_builtin", [{"pairs": sh} for sh in core.shards(pairs, 16)]))
    n = ctx.pick(1600, 32000)
    ctx.merge(core.pmap(MOD, "part_random", [{"n": n // 16, "seed": ctx.seed * 1000 + i} for i in range(16)]))


def replay(ctx, data):
    d = data["detail"]
    if isinstance(d, dict) and "case" in d:
        for key, det in judge_case(d["case"], ctx):
            ctx.violation(key, det)
    else:
        out = []
        bases, overrides = BUILTIN[d["system"]]
        judge_unit(d["system"], None, bases, overrides, d["unit"], [1.5, 2.0, 0.25], ctx, out, d["system"])
        for key, det in out:
            ctx.violation(key, det)
