"""Shared plumbing for every check: verdict records, known-findings matching,
Hypothesis driver that continues past findings, worker pool, evidence writer.

Exit codes: 0 held / only known findings; 1 unlisted violation (VIOLATION line);
2 harness error (never a violation).
"""

from __future__ import annotations

import fnmatch
import json
import math
import os
import re
import sys
import time
import traceback
from collections import Counter

VERIF = os.path.dirname(os.path.dirname(os.path.abspath(__file__)))
REPO = os.environ.get("VF_REPO", "/repo")
MAX_SAMPLES = 12
MAX_ROOTS = 10


class HarnessError(Exception):
    """Something is wrong with the check itself (vacuous run, import failure)."""


def jsonable(x, depth=0):
    """Best-effort conversion of a case/detail into JSON-compatible data."""
    import fractions

    if depth > 40:
        return repr(x)
    if x is None or isinstance(x, (bool, int, str)):
        return x
    if isinstance(x, float):
        if math.isnan(x) or math.isinf(x):
            return repr(x)
        return x
    if isinstance(x, fractions.Fraction):
        return str(x)
    if isinstance(x, complex):
        return repr(x)
    if isinstance(x, bytes):
        return x.hex()
    if isinstance(x, dict):
        return {str(k): jsonable(v, depth + 1) for k, v in x.items()}
    if isinstance(x, (list, tuple, set, frozenset)):
        return [jsonable(v, depth + 1) for v in x]
    try:
        import numpy as np

        if isinstance(x, np.generic):
            return jsonable(x.item(), depth + 1)
        if isinstance(x, np.ndarray):
            return {"nd": np.asarray(x).tolist() if x.size <= 64 else "…", "dtype": str(x.dtype),
                    "units": str(getattr(x, "units", ""))}
    except Exception:
        pass
    return repr(x)


class Part:
    """Mergeable result of one shard of work."""

    def __init__(self):
        self.evaluations = 0
        self.nontrivial = set()
        self.samples = []
        self.hist = Counter()
        self.violations = {}  # key -> detail (first/minimal example)
        self.known_hits = Counter()  # key -> count of excluded cases
        self.notes = []
        self.budget_exhausted = False

    # -- recording -----------------------------------------------------
    def ev(self, n=1):
        self.evaluations += n

    def nt(self, key):
        self.nontrivial.add(key if isinstance(key, (str, int)) else repr(key))

    def sample(self, s, force=False):
        if len(self.samples) < MAX_SAMPLES or force:
            self.samples.append(jsonable(s))

    def count(self, label, n=1):
        self.hist[label] += n

    def merge(self, other):
        self.evaluations += other.evaluations
        self.nontrivial |= other.nontrivial
        for s in other.samples:
            if len(self.samples) < MAX_SAMPLES:
                self.samples.append(s)
        self.hist.update(other.hist)
        for k, v in other.violations.items():
            self.violations.setdefault(k, v)
        self.known_hits.update(other.known_hits)
        self.notes.extend(other.notes)
        self.budget_exhausted |= other.budget_exhausted
        return self


class Known:
    """Read-only view of /verif/known_findings.json for one property."""

    def __init__(self, pid):
        self.entries = []
        path = os.path.join(VERIF, "known_findings.json")
        if os.path.exists(path):
            data = json.load(open(path))
            for e in data.get("findings", []):
                if e.get("property") == pid and e.get("status") == "known":
                    self.entries.append(e)

    def match(self, key):
        # a key may end in "~<operand kind>" (strided, float32, ...): a finding listed without the suffix covers every kind,
        # one listed with it only that kind
        cands = (key, key.rsplit("~", 1)[0]) if "~" in key else (key,)
        for e in self.entries:
            for pat in e.get("keys", []):
                for k in cands:
                    if k == pat or fnmatch.fnmatchcase(k, pat):
                        return e
        return None


class Ctx(Part):
    def __init__(self, pid, tier, seed):
        super().__init__()
        self.pid = pid
        self.tier = tier
        self.seed = seed
        self.known = Known(pid)
        self.t0 = time.time()
        self.rule = ""
        self.exhaustive = False
        self.assumptions = []
        self.level = "exploration"
        self.extra = {}

    @property
    def quick(self):
        return self.tier == "quick"

    def pick(self, quick, thorough):
        return quick if self.quick else thorough

    # A violation is reported through here (from the parent or from a worker's
    # Part via absorb()).  Known ones are counted, unknown ones kept.
    def violation(self, key, detail, part=None):
        tgt = part if part is not None else self
        e = self.known.match(key)
        if e is not None:
            tgt.known_hits[e["id"]] += 1
            return False
        if key not in tgt.violations:
            tgt.violations[key] = jsonable(detail)
        return True

    def is_known(self, key):
        return self.known.match(key) is not None


def classify(ctx_known: Known, part: Part, key, detail):
    """Worker-side violation recording: returns True if *new* (unlisted)."""
    e = ctx_known.match(key)
    if e is not None:
        part.known_hits[e["id"]] += 1
        return False
    if key not in part.violations:
        part.violations[key] = jsonable(detail)
    return True


# ---------------------------------------------------------------------------
# Hypothesis driver: keep searching behind findings, shrink each new root cause.


class _Found(Exception):
    pass


def escaped_from_library(e):
    """If exception *e* was raised from inside the library under test (innermost
    frames lie under .../unyt/), return 'Type@function', else None (harness bug)."""
    tb = traceback.extract_tb(e.__traceback__)
    last_verif = max((i for i, f in enumerate(tb) if "/verif/" in f.filename), default=-1)
    lib = [f for f in tb[last_verif + 1:] if "/unyt/" in f.filename]
    if not lib:
        return None
    return f"{type(e).__name__}@{lib[-1].name}"


def hyp_explore(part, known, strategy, case_fn, n, seed, max_roots=MAX_ROOTS, shrink=True,
                label=""):
    """Run ``case_fn(case, part) -> iterable[(key, detail)]`` over ``n`` generated
    cases.  Known keys are counted and skipped; each unlisted key is shrunk by
    Hypothesis to a minimal case, recorded once, and the search restarted
    ignoring it, so several root causes can be enumerated in one run."""
    import hypothesis
    from hypothesis import HealthCheck, Phase, given, settings

    ignored = set()
    rounds = 0
    remaining = n
    while remaining > 0 and rounds <= max_roots:
        rounds += 1
        state = {"last": None, "count": 0}

        def body(case):
            if not state.get("shrinking"):
                state["count"] += 1
            probe = Part()
            try:
                out = list(case_fn(case, probe) or [])
            except (_Found, HarnessError):
                raise
            except Exception as e:
                esc = escaped_from_library(e)
                if esc is None:
                    raise
                out = [(f"{label or 'case'}:exception-escaped:{esc}", {"error": f"{type(e).__name__}: {e}"[:300]})]
            new = []
            for key, detail in out:
                if key in ignored:
                    continue
                if known.match(key) is not None:
                    probe.known_hits[known.match(key)["id"]] += 1
                    continue
                new.append((key, detail))
            if state.get("shrinking"):
                # do not pollute counts with shrink replays
                pass
            else:
                part.merge(probe)
            if new:
                state["last"] = (case, new[0])
                state["shrinking"] = True
                raise _Found(new[0][0])

        phases = [Phase.explicit, Phase.generate] + ([Phase.shrink] if shrink else [])
        test = hypothesis.seed(seed + 7919 * rounds)(
            settings(
                max_examples=remaining,
                database=None,
                deadline=None,
                report_multiple_bugs=False,
                suppress_health_check=list(HealthCheck),
                phases=phases,
                print_blob=False,
                verbosity=hypothesis.Verbosity.quiet,
            )(given(strategy)(body))
        )
        try:
            test()
            break
        except _Found:
            case, (key, detail) = state["last"]
            if key not in part.violations:
                part.violations[key] = jsonable({"detail": detail, "case": case, "gen": label})
            ignored.add(key)
            remaining -= state["count"]
        except hypothesis.errors.Flaky:
            # the verdict did not reproduce when Hypothesis replayed the same case: the outcome depends on
            # process state left by earlier cases (itself reportable: results must not depend on history)
            if state["last"] is None:
                raise
            case, (key, detail) = state["last"]
            if key not in part.violations:
                part.violations[key] = jsonable({"detail": detail, "case": case, "gen": label,
                                                 "note": "history-dependent: did not reproduce on immediate replay of the same case"})
            ignored.add(key)
            remaining -= max(1, state["count"])
        except hypothesis.errors.Unsatisfiable as e:  # generator problem
            raise HarnessError(f"generator unsatisfiable in {label}: {e}")
    return part


def hyp_collect(part, known, strategy, case_fn, n, seed, label=""):
    """Like hyp_explore but never stops: every generated case is evaluated and *all* its verdicts are
    classified (first example per key kept).  For catalogue-style checks where one generated data set
    is judged against hundreds of templates and several root causes are expected at once."""
    import hypothesis
    from hypothesis import HealthCheck, Phase, given, settings

    def body(case):
        probe = Part()
        try:
            outs = list(case_fn(case, probe) or [])
        except HarnessError:
            raise
        except Exception as e:
            esc = escaped_from_library(e)
            if esc is None:
                raise
            outs = [(f"{label or 'case'}:exception-escaped:{esc}", {"error": f"{type(e).__name__}: {e}"[:300]})]
        part.merge(probe)
        for key, detail in outs:
            e = known.match(key)
            if e is not None:
                part.known_hits[e["id"]] += 1
            elif key not in part.violations:
                part.violations[key] = jsonable({"detail": detail, "case": case, "gen": label})

    test = hypothesis.seed(seed)(
        settings(max_examples=n, database=None, deadline=None, report_multiple_bugs=False,
                 suppress_health_check=list(HealthCheck), phases=[Phase.generate], print_blob=False,
                 verbosity=hypothesis.Verbosity.quiet)(given(strategy)(body))
    )
    test()
    return part


# ---------------------------------------------------------------------------
# Worker pool


def _worker_entry(args):
    modname, fname, payload = args
    import importlib

    os.environ.setdefault("PYTHONHASHSEED", "0")
    mod = importlib.import_module(modname)
    fn = getattr(mod, fname)
    try:
        return ("ok", fn(payload))
    except HarnessError as e:
        return ("harness", f"{e}")
    except Exception:
        return ("harness", traceback.format_exc())


def pmap(modname, fname, payloads, procs=None, timeout=None):
    """Run ``module.fname(payload) -> Part`` for each payload in spawned workers.

    With ``timeout`` (seconds, for the whole map) the parent acts as a watchdog: workers that have not
    delivered by then are killed, the results that did arrive are kept and the run is marked
    ``budget_exhausted`` (inconclusive for the missing shards, never a violation)."""
    import multiprocessing as mp

    procs = procs or min(16, os.cpu_count() or 1, max(1, len(payloads)))
    timed_out = 0
    if os.environ.get("VF_SERIAL") == "1" or (procs == 1 and timeout is None) or (len(payloads) == 1 and timeout is None):
        res = [_worker_entry((modname, fname, p)) for p in payloads]
    else:
        ctx = mp.get_context("spawn")
        pool = ctx.Pool(procs)
        try:
            if timeout is None:
                res = pool.map(_worker_entry, [(modname, fname, p) for p in payloads], chunksize=1)
            else:
                it = pool.imap_unordered(_worker_entry, [(modname, fname, p) for p in payloads], chunksize=1)
                res = []
                deadline = time.time() + timeout
                for _ in payloads:
                    try:
                        res.append(it.next(timeout=max(0.1, deadline - time.time())))
                    except mp.TimeoutError:
                        timed_out = len(payloads) - len(res)
                        break
        finally:
            pool.terminate()
            pool.join()
    total = Part()
    if timed_out:
        total.budget_exhausted = True
        total.notes.append(f"watchdog: {timed_out} of {len(payloads)} shards of {modname}.{fname} did not finish within {timeout}s and were killed (inconclusive)")
    for status, val in res:
        if status != "ok":
            raise HarnessError("worker failed:\n" + str(val))
        total.merge(val)
    return total


def shards(items, k):
    items = list(items)
    k = max(1, min(k, len(items)))
    return [items[i::k] for i in range(k)]


# ---------------------------------------------------------------------------
# Evidence / reporting


def _safe(s):
    return re.sub(r"[^A-Za-z0-9_.=-]+", "_", s)[:120]


def finish(ctx: Ctx, replay=False):
    wall = time.time() - ctx.t0
    # replay files for new violations
    lines = []
    outroot = os.environ.get("VF_OUT", VERIF)  # seeded-change runs write their evidence/replay elsewhere
    rdir = os.path.join(outroot, "replay", ctx.pid)
    for key, detail in ctx.violations.items():
        os.makedirs(rdir, exist_ok=True)
        path = os.path.join(rdir, _safe(key) + ".json")
        with open(path, "w") as f:
            json.dump({"property": ctx.pid, "key": key, "detail": detail, "seed": ctx.seed,
                       "tier": ctx.tier}, f, indent=1, ensure_ascii=False, default=repr)
        lines.append(f"VIOLATION property={ctx.pid} replay={path}")
    known_lines = []
    for e in ctx.known.entries:
        if ctx.known_hits.get(e["id"], 0) > 0:
            known_lines.append(f"KNOWN-FINDING: property={ctx.pid} {e['what']}")
    nt = len(ctx.nontrivial)
    cov = {
        "evaluations": int(ctx.evaluations),
        "distinct_nontrivial": int(nt),
        "rule": ctx.rule,
        "samples": ctx.samples[:MAX_SAMPLES],
        "exhaustive": bool(ctx.exhaustive),
        "histogram": dict(sorted(ctx.hist.items(), key=lambda kv: (-kv[1], kv[0]))[:80]),
        "excluded_known": {k: int(v) for k, v in ctx.known_hits.items()},
        "budget_exhausted": bool(ctx.budget_exhausted),
        "violation_keys": list(ctx.violations.keys()),
        "notes": ctx.notes[:40],
    }
    cov.update(ctx.extra)
    ev = {
        "property_id": ctx.pid,
        "tier": ctx.tier,
        "seed": int(ctx.seed),
        "level": ctx.level,
        "coverage": cov,
        "assumptions": ctx.assumptions,
        "wall_s": round(wall, 2),
        "violations": len(ctx.violations),
    }
    if not replay:  # a replay of one saved case is not a run of the check: it never overwrites the evidence
        os.makedirs(os.path.join(outroot, "evidence"), exist_ok=True)
        with open(os.path.join(outroot, "evidence", f"{ctx.pid}.json"), "w") as f:
            json.dump(ev, f, indent=1, ensure_ascii=False, default=repr)
    for ln in known_lines:
        print(ln)
    for ln in lines:
        print(ln)
    print(
        f"[{ctx.pid}] tier={ctx.tier} seed={ctx.seed} evaluations={ctx.evaluations} "
        f"nontrivial={nt} known_hits={sum(ctx.known_hits.values())} "
        f"violations={len(ctx.violations)} wall={wall:.1f}s"
    )
    if ctx.violations:
        for k, d in list(ctx.violations.items())[:10]:
            print("  -", k, "::", json.dumps(d, ensure_ascii=False, default=repr)[:400])
        return 1
    if replay:
        return 0
    if ctx.evaluations < 1 or nt < 2 or not ctx.samples:
        print(f"HARNESS-ERROR: vacuous run (evaluations={ctx.evaluations}, nontrivial={nt}, samples={len(ctx.samples)})")
        return 2
    return 0
