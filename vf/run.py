"""CLI:  python -m vf.run <ID> [--tier quick|thorough] [--replay FILE]

Environment: VERIF_SEED (int, default 1), VERIF_TIER (overridden by --tier).
"""

import argparse
import importlib
import json
import os
import sys
import traceback
import warnings


def main(argv=None):
    ap = argparse.ArgumentParser()
    ap.add_argument("pid")
    ap.add_argument("--tier", default=None)
    ap.add_argument("--replay", default=None)
    a = ap.parse_args(argv)
    tier = a.tier or os.environ.get("VERIF_TIER") or "quick"
    if tier not in ("quick", "thorough"):
        tier = "quick"
    try:
        seed = int(os.environ.get("VERIF_SEED", "1"))
    except ValueError:
        seed = 1
    warnings.simplefilter("ignore")
    from vf import core

    try:
        import unyt

        here = os.path.realpath(os.path.dirname(unyt.__file__))
        want = os.path.realpath(os.path.join(core.REPO, "unyt"))
        if here != want:
            print(f"HARNESS-ERROR: unyt imported from {here}, expected {want}")
            return 2
        mod = importlib.import_module(f"vf.checks.{a.pid.lower()}")
        ctx = core.Ctx(a.pid, tier, seed)
        if a.replay:
            data = json.load(open(a.replay))
            if not hasattr(mod, "replay"):
                print("HARNESS-ERROR: replay not supported for", a.pid)
                return 2
            mod.replay(ctx, data)
        else:
            mod.run(ctx)
        return core.finish(ctx, replay=bool(a.replay))
    except core.HarnessError as e:
        print("HARNESS-ERROR:", e)
        return 2
    except Exception:
        traceback.print_exc()
        print("HARNESS-ERROR: unexpected exception in check machinery")
        return 2


if __name__ == "__main__":
    sys.exit(main())
