"""Hypothesis strategies for unit names and unit-expression ASTs (oracle-side data only)."""

from fractions import Fraction as Fr

from hypothesis import strategies as st

from vf.oracle import resolve as R
from vf.oracle import table as T

SYMBOLS = sorted(T.ROWS)
PREFIXABLE = sorted(s for s, r in T.ROWS.items() if r["prefixable"])
PLAIN = [s for s in SYMBOLS if T.ROWS[s]["offset"] == 0 and s != "dimensionless"]
OFFSET = [s for s in SYMBOLS if T.ROWS[s]["offset"] != 0]
PREFIX_SYMS = [p for p in T.PREFIXES]
# prefixes whose value keeps ordinary scales comfortably inside float range
MILD_PREFIXES = ["G", "M", "k", "h", "da", "d", "c", "m", "u", "µ", "μ", "n", "p"]
ALIAS_NAMES = sorted(a for a in T.ALIASES if a and a != "_" and "°" not in a)
EXPONENTS = [Fr(1), Fr(1), Fr(1), Fr(2), Fr(3), Fr(-1), Fr(-1), Fr(-2), Fr(-3), Fr(1, 2), Fr(-1, 2),
             Fr(1, 3), Fr(3, 2), Fr(2, 3), Fr(4), Fr(-3, 2), Fr(5, 2), Fr(1, 4)]


def all_unit_names():
    """(name, prefix, base) for every canonical (prefix x prefixable symbol) and symbol."""
    out = [(s, None, s) for s in SYMBOLS]
    for b in PREFIXABLE:
        for p in PREFIX_SYMS:
            out.append((p + b, p, b))
    return out


def _readable(name):
    """keep only spellings whose first oracle reading is the intended one"""
    return bool(R.readings(name))


@st.composite
def atom_name(draw, offset_ok=False, mild=False, negative_ok=True):
    kind = draw(st.sampled_from(["sym", "sym", "pre", "pre", "alias", "word"]))
    pool = SYMBOLS if offset_ok else PLAIN
    if not negative_ok:
        pool = [s for s in pool if T.ROWS[s]["scale"] > 0]
    if kind == "sym":
        return draw(st.sampled_from(pool))
    if kind == "pre":
        b = draw(st.sampled_from([s for s in PREFIXABLE if offset_ok or T.ROWS[s]["offset"] == 0]))
        p = draw(st.sampled_from(MILD_PREFIXES if mild else PREFIX_SYMS))
        name = p + b
        # strings with a table/alias reading that differs from the split are C14's subject
        rs = R.readings(name)
        if rs and rs[0][1] == p and rs[0][2] == b:
            return name
        return b
    if kind == "alias":
        a = draw(st.sampled_from(ALIAS_NAMES))
        if T.ALIASES[a] in pool:
            return a
        return draw(st.sampled_from(pool))
    # prefix word + alias word
    b = draw(st.sampled_from([a for a in ALIAS_NAMES if len(a) >= 4 and T.ROWS[T.ALIASES[a]]["prefixable"]
                              and (offset_ok or T.ROWS[T.ALIASES[a]]["offset"] == 0)]))
    w = draw(st.sampled_from(sorted(T.PREFIX_WORDS)))
    name = w + b
    rs = R.readings(name)
    if rs and rs[0][0] == "word":
        return name
    return b


def partner_of(draw, name, mild=False):
    """another atomic name with the same dimension vector (by construction)"""
    _, d, _ = R.atom(name)
    cands = [s for s in T.BY_DIM.get(d, []) if T.ROWS[s]["offset"] == 0]
    if not cands:
        return name
    b = draw(st.sampled_from(cands))
    if T.ROWS[b]["prefixable"] and draw(st.booleans()):
        p = draw(st.sampled_from(MILD_PREFIXES if mild else PREFIX_SYMS))
        rs = R.readings(p + b)
        if rs and rs[0][1] == p and rs[0][2] == b:
            return p + b
    return b


@st.composite
def factor(draw, mild=False, frac_ok=True):
    name = draw(atom_name(mild=mild))
    e = draw(st.sampled_from(EXPONENTS if frac_ok else [x for x in EXPONENTS if x.denominator == 1]))
    s, _, _ = R.atom(name)
    if s < 0 and e.denominator != 1:
        e = Fr(e.numerator)
    node = ("u", name)
    if e == Fr(1, 2) and draw(st.booleans()):
        return ("sqrt", node)
    if e != 1:
        node = ("**", node, e)
    return node


@st.composite
def unit_ast(draw, max_factors=5, mild=False, coeff=True, frac_ok=True):
    n = draw(st.integers(1, max_factors))
    node = draw(factor(mild=mild, frac_ok=frac_ok))
    for _ in range(n - 1):
        f = draw(factor(mild=mild, frac_ok=frac_ok))
        op = draw(st.sampled_from(["*", "*", "/"]))
        if draw(st.integers(0, 3)) == 0:
            node, f = f, node
        node = (op, node, f)
        if draw(st.integers(0, 5)) == 0:
            e = draw(st.sampled_from([Fr(2), Fr(-1), Fr(1, 2), Fr(3)] if frac_ok else [Fr(2), Fr(-1), Fr(3)]))
            if e.denominator != 1 and _has_negative(node):
                e = Fr(2)
            if coeff and draw(st.booleans()):
                # a numeric coefficient *under* the power: sqrt(2*km), (10*km**3)**(1/3), (3*km)**-1
                node = ("*", ("n", draw(st.sampled_from(["2", "3", "10", "8", "0.5", "1000", "7", "2.5"]))), node)
            node = ("sqrt", node) if e == Fr(1, 2) and draw(st.booleans()) else ("**", node, e)
    if coeff and draw(st.integers(0, 3)) == 0:
        c = draw(st.sampled_from(["2", "3", "10", "1000", "0.5", "2.5", "1e3", "1.0e-2", "12", "0.001"]))
        node = ("*", ("n", c), node)
        if draw(st.integers(0, 2)) == 0 and not _has_negative(node):
            e = draw(st.sampled_from([Fr(1, 2), Fr(1, 3), Fr(-1, 2), Fr(3, 2), Fr(-1), Fr(2)] if frac_ok else [Fr(2), Fr(-1)]))
            node = ("sqrt", node) if e == Fr(1, 2) and draw(st.booleans()) else ("**", node, e)
    return node


def _has_negative(ast):
    if ast[0] == "u":
        return R.atom(ast[1])[0] < 0
    return any(_has_negative(a) for a in ast[1:] if isinstance(a, tuple))


def map_atoms(ast, fn):
    if ast[0] == "u":
        return ("u", fn(ast[1]))
    if ast[0] == "n":
        return ast
    if ast[0] == "**":
        return ("**", map_atoms(ast[1], fn), ast[2])
    return (ast[0],) + tuple(map_atoms(a, fn) for a in ast[1:])


def atoms_of(ast):
    if ast[0] == "u":
        return [ast[1]]
    out = []
    for a in ast[1:]:
        if isinstance(a, tuple):
            out += atoms_of(a)
    return out


def ast_from_json(j):
    """inverse of core.jsonable for ASTs (Fractions come back as 'p/q' strings)"""
    if j[0] == "u" or j[0] == "n":
        return (j[0], j[1])
    if j[0] == "**":
        return ("**", ast_from_json(j[1]), Fr(j[2]))
    return (j[0],) + tuple(ast_from_json(a) for a in j[1:])
