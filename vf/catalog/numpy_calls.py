"""Catalogue of NumPy call templates shared by C06, C07, C16 and C18.

A template is a Python expression over a small environment of *wrapped* arrays.  The same
template is evaluated with different ``wrap`` functions: identity (bare NumPy reference),
attach-units, attach-other-units-after-rescaling.  Flags after ``#``:

  K  result must keep the dimension of role A (selection / reshaping / sorting / rounding /
     interpolation / location and spread statistics): type clause of C07
  R  rounding family & co: numeric covariance clause not asserted (type clause still is)
  T  LAPACK / FFT backed: covariance judged with tolerance, not bit-exact
  U  declared unsupported: must raise TypeError under every unit assignment
  S  string/IO result: only "does not crash / drop silently" is recorded
  I  in-place: the template returns the mutated target
  B  needs role B to be the same dimension as role A (value-merging): roles share units
  N  the NumPy reference is not meaningful for this spelling (skip C06 differential)
  X  explicit unit-stripping accessor / plain-ndarray constructor / unit-keeping constant constructor: outside C07

Environment (role A unless noted): a, b 1-d(6) distinct values, asort sorted a, c 1-d(6) role B,
M, N (3,4), P (4,3) role B, S (3,3) well conditioned, R (3,3) role B, Sym SPD (3,3), u3 (3,),
v (3,) role B, T4 (2,3,4), qa 0-d, qb 0-d role B, pos positive 1-d(6), bare arrays nb, nM,
integers idx, idx2, k, boolean mask, cond2.
"""

import numpy as np

CATALOG = {}


def reg(name, *templates):
    CATALOG.setdefault(name, []).extend(templates)


# ---- element selection / reshaping (K) ---------------------------------------------------
for fn, tl in {
    "np.reshape": ["np.reshape(M, (4, 3)) #K", "np.reshape(a, (2, 3)) #K", "M.reshape(2, 6) #K", "M.reshape(-1) #K"],
    "np.ravel": ["np.ravel(M) #K", "M.ravel() #K", "M.flatten() #K"],
    "np.transpose": ["np.transpose(M) #K", "M.T #K", "np.transpose(T4, (2, 0, 1)) #K", "M.transpose() #K"],
    "np.swapaxes": ["np.swapaxes(T4, 0, 2) #K", "T4.swapaxes(1, 2) #K"],
    "np.moveaxis": ["np.moveaxis(T4, 0, -1) #K"],
    "np.rollaxis": ["np.rollaxis(T4, 2) #K"],
    "np.squeeze": ["np.squeeze(M[:1]) #K", "M[:, :1].squeeze() #K"],
    "np.expand_dims": ["np.expand_dims(a, 0) #K"],
    "np.atleast_1d": ["np.atleast_1d(qa) #K", "np.atleast_1d(a) #K"],
    "np.atleast_2d": ["np.atleast_2d(a) #K"],
    "np.atleast_3d": ["np.atleast_3d(M) #K"],
    "np.broadcast_to": ["np.broadcast_to(a, (2, 6)) #K", "np.broadcast_to(a, (2, 6), subok=True) #K"],
    "np.broadcast_arrays": ["np.broadcast_arrays(a, M[:1, :1]) #K", "np.broadcast_arrays(a, M[:1, :1], subok=True) #K"],
    "np.flip": ["np.flip(M) #K", "np.flip(M, 0) #K"],
    "np.fliplr": ["np.fliplr(M) #K"],
    "np.flipud": ["np.flipud(M) #K"],
    "np.roll": ["np.roll(a, 2) #K", "np.roll(M, 1, axis=1) #K"],
    "np.rot90": ["np.rot90(M) #K", "np.rot90(M, 2) #K"],
    "np.tile": ["np.tile(a, 2) #K", "np.tile(M, (2, 1)) #K"],
    "np.repeat": ["np.repeat(a, 2) #K", "np.repeat(M, 2, axis=0) #K", "a.repeat(3) #K"],
    "np.resize": ["np.resize(a, (2, 4)) #K"],
    "np.delete": ["np.delete(a, 1) #K", "np.delete(M, 0, axis=1) #K"],
    "np.take": ["np.take(a, idx) #K", "np.take(M, [0, 2], axis=1) #K", "a.take(idx) #K", "np.take(a, [7, -1], mode='wrap') #K",
                "np.take(a, [9, 1], mode='clip') #K", "np.take(a, 0) #K"],
    "np.take_along_axis": ["np.take_along_axis(M, np.argsort(np.asarray(M), axis=1), axis=1) #K"],
    "np.compress": ["np.compress(mask, a) #K"],
    "np.extract": ["np.extract(mask, a) #K"],
    "np.diag": ["np.diag(S) #K", "np.diag(u3) #K", "np.diag(S, 1) #K"],
    "np.diagonal": ["np.diagonal(S) #K", "S.diagonal() #K", "np.diagonal(T4, axis1=1, axis2=2) #K"],
    "np.diagflat": ["np.diagflat(u3) #K"],
    "np.tril": ["np.tril(S) #K", "np.tril(M, -1) #K"],
    "np.triu": ["np.triu(S) #K", "np.triu(M, 1) #K"],
    "np.trim_zeros": ["np.trim_zeros(np.concatenate([a[:0], a * 0, a, a * 0])[3:]) #K"],
    "np.copy": ["np.copy(a) #K", "a.copy() #K", "np.copy(M, subok=True) #K"],
    "np.asarray": ["np.asanyarray(a) #K"],
    "np.ascontiguousarray": ["np.ascontiguousarray(M.T) #N#X"],
    "np.split": ["np.split(a, 2) #K", "np.split(a, [1, 4]) #K"],
    "np.array_split": ["np.array_split(a, 4) #K"],
    "np.hsplit": ["np.hsplit(M, 2) #K"],
    "np.vsplit": ["np.vsplit(N, 3) #K"],
    "np.dsplit": ["np.dsplit(T4, 2) #K"],
    "np.unstack": ["np.unstack(M) #K", "np.unstack(M, axis=1) #K"],
    "np.matrix_transpose": ["np.matrix_transpose(M) #K", "np.linalg.matrix_transpose(T4) #K", "M.mT #K"],
    "np.linalg.diagonal": ["np.linalg.diagonal(S) #K", "np.linalg.diagonal(T4, offset=1) #K"],
    "np.real": ["np.real(a) #K", "a.real #K"],
    "np.imag": ["np.imag(a) #K", "a.imag #K"],
    "np.real_if_close": ["np.real_if_close(a) #K"],
    "np.nan_to_num": ["np.nan_to_num(a) #K"],
    "np.astype": ["np.astype(a, 'float32') #K", "a.astype('float32') #K"],
    "np.meshgrid": ["np.meshgrid(a, b) #K", "np.meshgrid(a[:3], b[:2], indexing='ij') #K"],
    "indexing": ["a[1] #K", "a[1:4] #K", "M[1] #K", "M[:, 2] #K", "M[1, 2] #K", "a[mask] #K", "a[idx] #K", "M[..., None] #K",
                 "a[::-1] #K", "M[[0, 2]][:, [1, 3]] #K", "T4[1, :, 2] #K", "a[-1] #K"],
    "iteration": ["list(a) #K", "[x for x in M] #K", "next(iter(a)) #K"],
}.items():
    reg(fn, *tl)

# ---- sorting, searching, counting --------------------------------------------------------
reg("np.sort", "np.sort(a) #K", "np.sort(M, axis=0) #K", "np.sort(M, axis=None) #K", "(lambda z: (z.sort(), z)[1])(a) #K#I")
reg("np.sort_complex", "np.sort_complex(a) #K")
reg("np.partition", "np.sort(np.partition(a, 2)[:2]) #K", "np.partition(a, 2)[2] #K")
reg("np.argsort", "np.argsort(a)", "a.argsort()", "np.argsort(M, axis=0)")
reg("np.argpartition", "np.argpartition(a, 2)[2]")
reg("np.lexsort", "np.lexsort((a, b))")
reg("np.argmax", "np.argmax(a)", "a.argmax()", "np.argmax(M, axis=1)")
reg("np.argmin", "np.argmin(a)", "a.argmin()", "np.argmin(M, axis=0)")
reg("np.nanargmax", "np.nanargmax(a)")
reg("np.nanargmin", "np.nanargmin(a)")
reg("np.argwhere", "np.argwhere(a)", "np.argwhere(M * 0)")
reg("np.nonzero", "np.nonzero(a)", "a.nonzero()", "np.nonzero(np.where(mask, a, a * 0))")
reg("np.flatnonzero", "np.flatnonzero(np.where(mask, a, a * 0))")
reg("np.count_nonzero", "np.count_nonzero(a)", "np.count_nonzero(np.where(mask, a, a * 0))")
reg("np.searchsorted", "np.searchsorted(asort, b) #B", "np.searchsorted(asort, b[2]) #B", "asort.searchsorted(b, side='right') #B",
    "np.searchsorted(asort, b, sorter=np.arange(6)) #B")
reg("np.digitize", "np.digitize(a, asort) #B")
reg("np.unique", "np.unique(np.concatenate([a, a[:2]])) #K", "np.unique(np.concatenate([a, a[:2]]), return_index=True, return_inverse=True, return_counts=True)")
reg("np.unique_all", "np.unique_all(np.concatenate([a, a[:2]]))")
reg("np.unique_counts", "np.unique_counts(np.concatenate([a, a[:2]]))")
reg("np.unique_inverse", "np.unique_inverse(np.concatenate([a, a[:2]]))")
reg("np.unique_values", "np.unique_values(np.concatenate([a, a[:2]])) #K")
reg("np.bincount", "np.bincount(idx2, weights=a)")
reg("np.all", "np.all(a)", "a.all()")
reg("np.any", "np.any(a)", "a.any()", "np.any(a * 0)")
reg("np.isreal", "np.isreal(a)")
reg("np.iscomplex", "np.iscomplex(a)")
reg("np.isrealobj", "np.isrealobj(a)")
reg("np.iscomplexobj", "np.iscomplexobj(a)")
reg("np.isneginf", "np.isneginf(a)")
reg("np.isposinf", "np.isposinf(a)")
reg("np.shape", "np.shape(M)", "np.ndim(M)", "np.size(M)", "M.shape", "M.size", "len(a)")
reg("np.shares_memory", "np.shares_memory(a, a[1:])", "np.may_share_memory(a, b)")
reg("np.result_type", "str(np.result_type(a, b))", "str(np.common_type(a, M))", "str(np.min_scalar_type(a))", "np.can_cast(a.dtype, 'float32')")
reg("np.ravel_multi_index", "np.ravel_multi_index((idx[:2], idx[:2]), (5, 5))", "np.unravel_index(idx, (2, 3))")
reg("np.diag_indices_from", "np.diag_indices_from(S)", "np.tril_indices_from(S)", "np.triu_indices_from(S)")

# ---- reductions and statistics -----------------------------------------------------------
for nm in ("sum", "mean", "max", "min", "amax", "amin", "median", "nansum", "nanmean", "nanmax", "nanmin", "nanmedian", "std", "nanstd", "ptp"):
    reg("np." + nm, f"np.{nm}(a) #K", f"np.{nm}(M, axis=0) #K", f"np.{nm}(M, axis=1, keepdims=True) #K")
for nm in ("sum", "mean", "max", "min", "std"):
    reg("np." + nm, f"a.{nm}() #K", f"M.{nm}(axis=1) #K")
reg("np.sum", "np.sum(M, axis=(0, 1)) #K", "np.sum(a, where=mask) #K", "np.sum(M, out=None, dtype='float64') #K")
reg("np.ptp", "np.ptp(M, axis=1) #K")
reg("np.var", "np.var(a)", "np.var(M, axis=0)", "np.var(a, ddof=1)", "a.var()", "np.nanvar(a)", "np.nanvar(M, axis=1)")
reg("np.std", "np.std(a, ddof=1) #K")
reg("np.average", "np.average(a) #K", "np.average(a, weights=nb) #K", "np.average(a, weights=c) #K", "np.average(M, axis=0, weights=nb[:3]) #K",
    "np.average(a, weights=nb, returned=True)")
reg("np.prod", "np.prod(a[:3])", "np.prod(M, axis=0)", "np.prod(M, axis=1)", "a[:2].prod()", "np.prod(M)", "np.nanprod(a[:3])", "np.nanprod(M, axis=1)",
    "np.prod(M, axis=(0, 1))", "np.prod(M, axis=0, keepdims=True)")
reg("np.cumsum", "np.cumsum(a) #K", "np.cumsum(M, axis=1) #K", "a.cumsum() #K", "np.nancumsum(a) #K", "np.cumulative_sum(a) #K",
    "np.cumulative_sum(M, axis=0, include_initial=True) #K")
reg("np.cumprod", "np.cumprod(a)", "np.nancumprod(a)", "np.cumulative_prod(a)", "np.cumprod(nb * qa / qa)")
reg("np.percentile", "np.percentile(a, 30) #K", "np.percentile(M, [25, 75], axis=1) #K", "np.percentile(a, 50, method='nearest') #K",
    "np.nanpercentile(a, 30) #K")
reg("np.quantile", "np.quantile(a, 0.3) #K", "np.quantile(M, 0.5, axis=0) #K", "np.nanquantile(a, [0.1, 0.9]) #K", "np.quantile(a, 0.5, weights=nb, method='inverted_cdf') #K")
reg("np.corrcoef", "np.corrcoef(a, b) #T", "np.corrcoef(M) #T")
reg("np.cov", "np.cov(a, b) #T", "np.cov(M) #T")
reg("np.trace", "np.trace(S) #K", "S.trace() #K", "np.trace(T4, axis1=1, axis2=2) #K", "np.linalg.trace(S) #K")
reg("np.histogram", "np.histogram(a)", "np.histogram(a, bins=3)", "np.histogram(a, bins=asort) #B", "np.histogram(a, bins=4, range=(asort[0], asort[-1])) #B",
    "np.histogram(a, weights=c)", "np.histogram(a, bins=3, density=True)", "np.histogram(a, bins=3, weights=c, density=True)")
reg("np.histogram_bin_edges", "np.histogram_bin_edges(a, bins=4) #K")
reg("np.histogram2d", "np.histogram2d(a, c)", "np.histogram2d(a, c, bins=3, density=True)", "np.histogram2d(a, c, weights=nb)")
reg("np.histogramdd", "np.histogramdd((a, c), bins=3)", "np.histogramdd((a, c), bins=2, density=True)")

# ---- arithmetic-like functions -----------------------------------------------------------
reg("np.dot", "np.dot(a, c)", "np.dot(M, P)", "np.dot(a, nb)", "np.dot(nb, c)", "a.dot(c)", "np.dot(M, v4)", "np.dot(qa, c)")
reg("np.vdot", "np.vdot(a, c)", "np.vdot(M, N)")
reg("np.inner", "np.inner(a, c)", "np.inner(M, N)")
reg("np.outer", "np.outer(a, c)", "np.linalg.outer(a, c)", "np.outer(a, nb)")
reg("np.kron", "np.kron(u3, v)", "np.kron(S, R)")
reg("np.cross", "np.cross(u3, v)", "np.linalg.cross(u3, v)", "np.cross(M[:, :3], P.T[:3, :3].T[:3])")
reg("np.tensordot", "np.tensordot(M, P, 1)", "np.tensordot(T4, P, axes=([2], [0]))", "np.linalg.tensordot(M, P, axes=1)")
reg("np.einsum", "np.einsum('ij,jk->ik', M, P)", "np.einsum('i,i', a, c)", "np.einsum('ii', S) #K", "np.einsum('ij->ji', M) #K",
    "np.einsum('i,j->ij', a, c)", "np.einsum('ij,ij->i', M, N)", "np.einsum('ij->', M) #K", "np.einsum('i,i->i', a, b)")
reg("np.einsum_path", "np.einsum_path('ij,jk->ik', M, P)[0]")
reg("np.linalg.matmul", "np.linalg.matmul(M, P)", "np.matmul(M, P)", "M @ P", "np.linalg.vecdot(a, c)", "np.vecdot(M, N)", "np.linalg.multi_dot([M, P, R])")
reg("np.linalg.matrix_power", "np.linalg.matrix_power(S, 2) #T", "np.linalg.matrix_power(S, 3) #T", "np.linalg.matrix_power(S, 0) #T")
reg("np.convolve", "np.convolve(a, c)", "np.convolve(a, c[:3], mode='same')", "np.convolve(a, nb[:2])")
reg("np.correlate", "np.correlate(a, c)", "np.correlate(a, c[:3], mode='full')")
reg("np.trapezoid", "np.trapezoid(a)", "np.trapezoid(a, c)", "np.trapezoid(a, dx=qb)", "np.trapezoid(a, dx=2.0)", "np.trapezoid(M, axis=0)", "np.trapezoid(a, nb)")
reg("np.gradient", "np.gradient(a)", "np.gradient(a, c)", "np.gradient(a, qb)", "np.gradient(M)", "np.gradient(a, 2.0)", "np.gradient(M, axis=1, edge_order=2)")
reg("np.diff", "np.diff(a) #K", "np.diff(M, axis=0) #K", "np.diff(a, n=2) #K", "np.diff(a, prepend=b[:1]) #K#B", "np.diff(a, append=b[:2]) #K#B")
reg("np.ediff1d", "np.ediff1d(a) #K", "np.ediff1d(M) #K", "np.ediff1d(a, to_end=b[:1]) #K#B", "np.ediff1d(a, to_begin=b[:2]) #K#B")
reg("np.interp", "np.interp(b, asort, c)", "np.interp(b[2], asort, c)", "np.interp(b, asort, nb)", "np.interp(nb, np.sort(nb), a) #K",
    "np.interp(b, asort, c, left=qb, right=qb)", "np.interp(b, asort, c, period=asort[-1] - asort[0] + asort[-1] - asort[0])")
reg("np.linalg.norm", "np.linalg.norm(a) #K", "np.linalg.norm(M) #K#T", "np.linalg.norm(M, axis=1) #K", "np.linalg.norm(a, 1) #K", "np.linalg.norm(a, np.inf) #K",
    "np.linalg.norm(S, 'nuc') #K#T", "np.linalg.norm(S, 2) #K#T", "np.linalg.vector_norm(a) #K", "np.linalg.matrix_norm(S) #K#T", "np.linalg.norm(a, 0)",
    "np.linalg.vector_norm(a, ord=3) #K#T")
reg("np.linalg.det", "np.linalg.det(S) #T", "np.linalg.det(np.stack([S, Sym])) #T", "np.linalg.det(S[:2, :2]) #T")
reg("np.linalg.slogdet", "np.linalg.slogdet(nM3)")
reg("np.linalg.inv", "np.linalg.inv(S) #T", "np.linalg.inv(np.stack([S, Sym])) #T")
reg("np.linalg.pinv", "np.linalg.pinv(M) #T", "np.linalg.pinv(S) #T")
reg("np.linalg.solve", "np.linalg.solve(S, v) #T", "np.linalg.solve(S, R) #T", "np.linalg.solve(nM3, v) #T", "np.linalg.solve(S, nb[:3]) #T")
reg("np.linalg.lstsq", "np.linalg.lstsq(P4S, v4, rcond=None)[0] #T", "np.linalg.lstsq(P4S, v4, rcond=None)[1] #T", "np.linalg.lstsq(P4S, v4, rcond=None)[2]",
    "np.linalg.lstsq(P4S, v4, rcond=None)[3] #T")
reg("np.linalg.tensorsolve", "np.linalg.tensorsolve(np.reshape(S6, (2, 3, 6)), np.reshape(c, (2, 3))) #T")
reg("np.linalg.tensorinv", "np.linalg.tensorinv(np.reshape(S6, (6, 2, 3)), ind=1) #T")
reg("np.linalg.eig", "np.linalg.eigvals(Sym) #T#K", "np.sort(np.linalg.eig(Sym)[0]) #T#K")
reg("np.linalg.eigh", "np.linalg.eigvalsh(Sym) #T#K", "np.linalg.eigh(Sym)[0] #T#K", "np.abs(np.linalg.eigh(Sym)[1]) #T", "np.linalg.eigvalsh(Sym, 'U') #T#K")
reg("np.linalg.svd", "np.linalg.svd(M)[1] #T#K", "np.linalg.svd(M, compute_uv=False) #T#K", "np.linalg.svdvals(M) #T#K", "np.abs(np.linalg.svd(S)[0]) #T",
    "np.abs(np.linalg.svd(S)[2]) #T")
reg("np.linalg.qr", "np.abs(np.linalg.qr(S)[1]) #T#K", "np.abs(np.linalg.qr(S)[0]) #T", "np.abs(np.linalg.qr(M, mode='r')) #T#K")
reg("np.linalg.cholesky", "np.linalg.cholesky(Sym) #T")
reg("np.linalg.cond", "np.linalg.cond(S) #T", "np.linalg.matrix_rank(S)")
for nm in ("fft", "ifft", "rfft", "irfft", "hfft", "ihfft"):
    reg("np.fft." + nm, f"np.fft.{nm}(a) #T", f"np.fft.{nm}(a, n=4) #T")
for nm in ("fft2", "ifft2", "fftn", "ifftn", "rfft2", "rfftn", "irfft2", "irfftn"):
    reg("np.fft." + nm, f"np.fft.{nm}(M) #T")
reg("np.fft.fftshift", "np.fft.fftshift(a) #K", "np.fft.ifftshift(a) #K", "np.fft.fftshift(M, axes=0) #K")
reg("np.sinc", "np.sinc(nb * qa / qa)")
reg("np.unwrap", "np.unwrap(ang)", "np.unwrap(ang, period=angp) #B")
reg("np.angle", "np.angle(a)", "np.angle(a + 1j * b)")
reg("np.i0", "np.i0(nb * qa / qa)")

# ---- products whose units cancel across different scales (role I = inverse of role A, other unit) ----
reg("np.dot", "np.dot(a, ci)", "np.dot(M, Pi)", "a.dot(ci)", "np.dot(ci, a)")
reg("np.vdot", "np.vdot(a, ci)")
reg("np.inner", "np.inner(a, ci)")
reg("np.outer", "np.outer(a, ci)", "np.linalg.outer(a, ci)", "np.outer(ci, a)")
reg("np.kron", "np.kron(u3, vi)")
reg("np.cross", "np.cross(u3, vi)")
reg("np.tensordot", "np.tensordot(M, Pi, 1)")
reg("np.linalg.matmul", "np.matmul(M, Pi)", "M @ Pi", "np.linalg.vecdot(a, ci)", "np.linalg.multi_dot([M, Pi, nM3])")
reg("np.convolve", "np.convolve(a, ci)")
reg("np.correlate", "np.correlate(a, ci)")
reg("np.trapezoid", "np.trapezoid(ci, a)", "np.trapezoid(a, ci)")
reg("np.multiply", "a * ci", "np.multiply(a, ci)", "a / (1 / ci)", "np.multiply.outer(a, ci)", "np.prod(a[:2] * ci[:2])", "(a * ci).sum()", "np.mean(a * ci)")
reg("np.linalg.solve", "np.linalg.solve(S, vi) #T")
reg("np.interp", "np.interp(b, asort, ci)")
reg("np.histogram", "np.histogram(a, weights=ci)")
reg("np.average", "np.average(a, weights=ci) #K")

# ---- ties, zeros and boundary-valued arguments (falsy values must not be mistaken for "not given") -------------
reg("np.argsort", "np.argsort(t, stable=True)", "np.argsort(t, kind='stable')", "t.argsort(kind='stable')", "np.argsort(t2, axis=0, stable=True)", "np.argsort(t, kind='mergesort')",
    "np.argsort(-t, stable=True)")
reg("np.sort", "np.sort(t, stable=True) #K", "np.sort(t, kind='stable') #K", "np.sort(t2, axis=0, stable=True) #K")
reg("np.lexsort", "np.lexsort((t, t[::-1]))")
reg("np.searchsorted", "np.searchsorted(np.sort(t), t, side='left') #B", "np.searchsorted(np.sort(t), t, side='right') #B")
reg("np.unique", "np.unique(t, return_index=True, return_inverse=True, return_counts=True)", "np.unique(t2, axis=0) #K")
reg("np.argmax", "np.argmax(t)", "np.argmin(t)", "np.argmax(t2, axis=0)")
reg("np.interp", "np.interp(b * 3, asort, c, left=0, right=0)", "np.interp(b * 3, asort, c, left=0.0)", "np.interp(b * 3, asort, c, right=qb * 0)",
    "np.interp(b * 3, asort, c, left=qb * 0, right=qb)", "np.interp(b * 3, asort, c, left=qb, right=0)", "np.interp(b * 3, asort, nb, left=0, right=0)")
reg("np.pad", "np.pad(a, 2, constant_values=0) #K", "np.pad(a, (0, 2)) #K", "np.pad(a, 0) #K", "np.pad(a, 1, mode='linear_ramp', end_values=0) #K")
reg("np.clip", "np.clip(a, 0, asort[4]) #K#B", "np.clip(a, asort[1], 0) #K#B", "np.clip(a, 0, 0) #K")
reg("np.where", "np.where(mask, a, 0) #K", "np.where(mask, 0, a) #K")
reg("np.insert", "np.insert(a, 0, 0) #K", "np.insert(a, 6, b[0]) #K#B")
reg("np.roll", "np.roll(a, 0) #K", "np.roll(a, -1) #K")
reg("np.take", "np.take(a, 0) #K", "np.take(a, [0]) #K", "np.take(M, 0, axis=0) #K")
reg("np.percentile", "np.percentile(a, 0) #K", "np.percentile(a, 100) #K", "np.quantile(a, 0.0) #K", "np.quantile(a, 1) #K")
reg("np.sum", "np.sum(a, initial=0) #K", "np.sum(M, axis=0, initial=0.0) #K", "np.sum(a, where=~mask, initial=0) #K", "np.max(a, initial=asort[0]) #K#B",
    "np.min(a, where=mask, initial=asort[-1]) #K#B", "np.prod(a[:0])", "np.sum(a[:0]) #K", "np.mean(M, axis=0, where=cond2) #K")
reg("np.diff", "np.diff(a, n=0) #K", "np.diff(a, prepend=0) #K", "np.diff(a, append=0) #K")
reg("np.ediff1d", "np.ediff1d(a, to_begin=0) #K", "np.ediff1d(a, to_end=0) #K")
reg("np.trapezoid", "np.trapezoid(a, dx=0.0)", "np.trapezoid(a, axis=0)", "np.trapezoid(M, axis=-1)")
reg("np.linspace", "np.linspace(qa * 0, qa2, 4) #K#B", "np.linspace(qa, qa2, 1) #K#B", "np.linspace(qa, qa2, 0) #K#B", "np.linspace(0, 1, 3) * qa #K")
reg("np.full_like", "np.full_like(a, 0) #K", "np.full_like(a, qa * 0) #K#B")
reg("np.fill_diagonal", "ip(lambda z: np.fill_diagonal(z, 0), S) #K#I")
reg("np.put", "ip(lambda z: np.put(z, [0], 0), a) #K#I", "ip(lambda z: np.put(z, idx, b[:3], mode='raise'), a) #K#B#I")
reg("np.putmask", "ip(lambda z: np.putmask(z, mask, 0), a) #K#I")
reg("np.place", "ip(lambda z: np.place(z, mask, [0]), a) #K#I")
reg("np.select", "np.select([mask], [a], default=0) #K", "np.select([mask, ~mask], [a, b], default=b[0] * 0) #K#B")
reg("np.isclose", "np.isclose(tz, tz * 0, atol=0) #B", "np.isclose(a, b, rtol=0, atol=0) #B", "np.allclose(tz, tz, rtol=0, atol=0) #B")
reg("np.nan_to_num", "np.nan_to_num(a, nan=0.0) #K", "np.nan_to_num(np.where(mask, a, np.nan * a), nan=0.0) #K")
reg("np.around", "np.around(a, 0) #K#R", "np.round(a, decimals=0) #K#R")
reg("np.histogram", "np.histogram(a, bins=1)", "np.histogram(tz, bins=3)", "np.histogram(a, bins=3, range=(asort[0] * 0, asort[-1])) #B", "np.histogram(a, bins=3, density=False)")
reg("np.concatenate", "np.concatenate([a, a[:0]]) #K", "np.concatenate([a[:0], b]) #K#B", "np.concatenate([a], axis=0) #K")
reg("np.average", "np.average(a, weights=np.where(mask, nb, 0)) #K", "np.average(M, axis=0) #K")
reg("np.repeat", "np.repeat(a, 0) #K", "np.repeat(a, [0, 1, 2, 0, 1, 2]) #K")
reg("np.tile", "np.tile(a, 0) #K", "np.tile(a, 1) #K")
reg("np.cross", "np.cross(u3, u3 * 0)")
reg("np.cumsum", "np.cumsum(a, axis=0) #K", "np.cumsum(tz) #K")
reg("np.count_nonzero", "np.count_nonzero(tz)", "np.nonzero(tz)", "np.flatnonzero(tz)", "np.argwhere(tz)", "np.trim_zeros(tz) #K", "np.any(tz)", "np.all(tz)")

# ---- several operands of ONE dimension written in DIFFERENT units within one call (role A2 = role A's dimension, other unit) ----
reg("np.histogram", "np.histogram(a, bins=3, range=(q2lo, asort[-1]))", "np.histogram(a, bins=3, range=(asort[0], q2hi))", "np.histogram(a, bins=3, range=(q2lo, q2hi))",
    "np.histogram(a, bins=a2sorted)")
reg("np.histogram2d", "np.histogram2d(a, b, bins=2, range=[(q2lo, asort[-1]), (bsort[0], bsort[-1])])", "np.histogram2d(a, c, bins=2, range=[(asort[0], q2hi), (csort[0], csort[-1])])")
reg("np.histogramdd", "np.histogramdd((a, c), bins=2, range=[(q2lo, asort[-1]), (csort[0], csort[-1])])")
reg("np.histogram_bin_edges", "np.histogram_bin_edges(a, bins=3, range=(q2lo, asort[-1])) #K")
reg("np.clip", "np.clip(a, q2lo, asort[4]) #K", "np.clip(a, asort[1], q2hi) #K", "np.clip(a, a2, None) #K")
reg("np.maximum", "np.maximum(a, a2) #K", "np.minimum(a2, a) #K", "np.fmax(a, a2) #K", "np.hypot(a, a2) #K", "np.arctan2(a, a2)", "np.fmod(a, a2) #K#R", "a + a2 #K", "a - a2 #K",
    "a2 + a #K", "np.add(a, a2) #K", "np.subtract(a2, a) #K", "a < a2", "a2 >= a", "a == a2", "np.add.outer(a, a2) #K")
reg("inplace-operator", "(lambda z: (z.__iadd__(a2), z)[1])(a) #K#I", "(lambda z: (z.__isub__(a2), z)[1])(a) #K#I", "(lambda z: (z.__imul__(nb), z)[1])(a) #K#I")
reg("np.where", "np.where(mask, a, a2) #K", "np.where(cond2, M, M2) #K")
reg("np.select", "np.select([mask, ~mask], [a, a2]) #K")
reg("np.choose", "np.choose([0, 1, 0, 1, 1, 0], [a, a2]) #K")
reg("np.concatenate", "np.concatenate([a, a2]) #K", "np.stack([a, a2]) #K", "np.vstack([M, M2]) #K", "np.hstack([a, a2]) #K", "np.append(a, a2) #K", "np.block([a, a2]) #K",
    "np.column_stack([a, a2]) #K", "np.dstack([a, a2]) #K")
reg("np.linspace", "np.linspace(qa, q2hi, 4) #K", "np.linspace(q2lo, qa, 3) #K", "np.geomspace(pos[0], pos2[1], 3) #K#T")
reg("np.isclose", "np.isclose(a, a2, atol=0)", "np.allclose(a, a2, atol=0)", "np.isclose(a, a2, rtol=0.123456789, atol=0)", "np.array_equal(a, a2)", "np.array_equiv(a, a2)")
reg("np.searchsorted", "np.searchsorted(asort, a2)", "np.searchsorted(asort, q2lo)", "np.digitize(a2, asort)")
reg("np.interp", "np.interp(a2, asort, c)", "np.interp(b, a2sorted, c)", "np.interp(b, asort, c, left=qb, right=qb)")
reg("np.isin", "np.isin(a, a2)", "np.isin(a2, a)")
reg("np.union1d", "np.union1d(a, a2) #K", "np.intersect1d(a, a2) #K", "np.setdiff1d(a, a2) #K", "np.setxor1d(a, a2) #K")
reg("np.insert", "np.insert(a, 1, a2[0]) #K", "np.insert(a, [1, 3], a2[:2]) #K")
reg("np.put", "ip(lambda z: np.put(z, idx, a2[:3]), a) #K#I", "ip(lambda z: np.putmask(z, mask, a2), a) #K#I", "ip(lambda z: np.place(z, mask, a2[:2]), a) #K#I",
    "ip(lambda z: np.copyto(z, a2, where=mask), a) #K#I", "ip(lambda z: z.__setitem__(1, a2[0]), a) #K#I", "ip(lambda z: z.__setitem__(slice(1, 4), a2[:3]), a) #K#I",
    "ip(lambda z: np.fill_diagonal(z, a2[0]), S) #K#I", "ip(lambda z: z.fill(a2[0]), a) #K#I")
reg("np.histogram", "np.histogram(a, bins=a2sorted, density=True)", "np.histogram(a, bins=a2sorted, weights=c)", "np.histogram(a2, bins=asort, density=True)")
reg("np.histogram2d", "np.histogram2d(a, c, bins=[a2sorted, csort])", "np.histogram2d(a, c, bins=[a2sorted, csort], density=True)")
reg("np.histogramdd", "np.histogramdd((a, c), bins=[a2sorted, csort])", "np.histogramdd((a, c), bins=[a2sorted, csort], density=True)")
reg("np.histogram_bin_edges", "np.histogram_bin_edges(a2, bins=asort) #K")
# explicit dtype= requests (method and function spellings): the result has the requested type, as on bare data
reg("np.trace", "S.trace(dtype=np.float32) #K", "S.trace(0, 0, 1, np.float32) #K", "np.trace(S, dtype=np.float32) #K", "S.trace(dtype=np.complex128) #K")
reg("np.sum", "M.sum(dtype=np.float32) #K", "np.sum(M, dtype=np.float32) #K", "M.mean(dtype=np.float32) #K", "np.mean(M, axis=1, dtype=np.float32) #K",
    "M.cumsum(dtype=np.float32) #K", "np.cumsum(a, dtype=np.complex128) #K", "np.nansum(M, dtype=np.float32) #K", "np.nanmean(M, dtype=np.float32) #K")
reg("np.prod", "a[:3].prod(dtype=np.float32)", "np.prod(a[:3], dtype=np.float32)", "np.cumprod(a[:3], dtype=np.float32) #T", "M.var(dtype=np.float32)")
reg("np.stack", "np.stack([a, a], dtype=np.float32) #K", "np.concatenate([a, a], dtype=np.float32) #K", "np.einsum('ii', S, dtype=np.float32) #K", "np.astype(a, np.float32) #K",
    "a.astype(np.float32) #K", "np.linspace(qa, qa * 3, 4, dtype=np.float32) #K", "np.full_like(a, qa, dtype=np.float32) #K", "np.asarray(a, dtype=np.float32) #X", "np.ones_like(a, dtype=np.float32) #X")
# the two coordinates in different units of one dimension; one edge array shared by both, or one per axis in either unit
reg("np.histogram2d", "np.histogram2d(a, a2, bins=asort)", "np.histogram2d(a, a2, bins=a2sorted)", "np.histogram2d(a2, a, bins=asort, density=True)", "np.histogram2d(a, a2, bins=[asort, a2sorted])",
    "np.histogram2d(a, a2, bins=[a2sorted, asort])", "np.histogram2d(a2, a, bins=[asort, asort], weights=c)", "np.histogram2d(a, a2, bins=[3, asort])", "np.histogram2d(a, a2, bins=[a2sorted, 2])")
reg("np.histogramdd", "np.histogramdd((a, a2), bins=[asort, asort])", "np.histogramdd((a2, a), bins=[asort, a2sorted], density=True)", "np.histogramdd((a, a2, b), bins=(a2sorted, asort, bsort))",
    "np.histogramdd(np.stack([a, b], axis=1), bins=[a2sorted, a2sorted])")
reg("np.pad", "np.pad(a, 1, constant_values=q2lo) #K", "np.pad(a, 1, mode='linear_ramp', end_values=q2hi) #K")
reg("np.full_like", "np.full_like(a, q2lo) #K")
reg("np.diff", "np.diff(a, prepend=a2[:1]) #K", "np.diff(a, append=a2[:2]) #K", "np.ediff1d(a, to_begin=a2[:1]) #K")
reg("np.trapezoid", "np.trapezoid(c, a2)", "np.trapezoid(c, dx=q2hi)")
reg("np.gradient", "np.gradient(c, q2hi)")
reg("np.average", "np.average(a, weights=np.abs(a2)) #K")
reg("np.dot", "np.dot(a, a2)", "np.vdot(a, a2)", "np.outer(a, a2)", "np.cross(u3, a2[:3])", "np.convolve(a, a2)", "np.kron(u3, a2[:3])", "np.inner(a, a2)", "a * a2", "a / a2",
    "np.tensordot(M, M2.T, 1)", "np.einsum('i,i', a, a2)", "M @ M2.T")

# ---- rounding family (R) -----------------------------------------------------------------
reg("np.round", "np.round(a) #K#R", "np.round(a, 1) #K#R", "np.around(a, 2) #K#R", "a.round(1) #K#R", "np.around(M, decimals=-1) #K#R", "np.fix(a) #K#R",
    "np.floor(a) #K#R", "np.ceil(a) #K#R", "np.trunc(a) #K#R", "np.rint(a) #R")

# ---- value merging (B: roles share a dimension) ------------------------------------------
reg("np.concatenate", "np.concatenate([a, b]) #K#B", "np.concatenate([M, N], axis=1) #K#B", "np.concatenate((a, b, a)) #K#B", "np.concatenate([M, N], axis=None) #K#B")
reg("np.stack", "np.stack([a, b]) #K#B", "np.stack([M, N], axis=2) #K#B")
reg("np.vstack", "np.vstack([a, b]) #K#B", "np.vstack([M, N]) #K#B")
reg("np.hstack", "np.hstack([a, b]) #K#B", "np.hstack([M, N]) #K#B", "np.hstack([T4, T4]) #K#B")
reg("np.dstack", "np.dstack([a, b]) #K#B", "np.dstack([M, N]) #K#B")
reg("np.column_stack", "np.column_stack([a, b]) #K#B", "np.column_stack([M, N]) #K#B")
reg("np.block", "np.block([a, b]) #K#B", "np.block([[S, S], [Sym, S]]) #K#B")
reg("np.append", "np.append(a, b) #K#B", "np.append(M, N, axis=0) #K#B", "np.append(a, b[1]) #K#B")
reg("np.insert", "np.insert(a, 1, b[0]) #K#B", "np.insert(a, [1, 3], b[:2]) #K#B", "np.insert(M, 1, N[0], axis=0) #K#B")
reg("np.where", "np.where(mask, a, b) #K#B", "np.where(mask, a, b[0]) #K#B", "np.where(mask)", "np.where(cond2, M, N) #K#B")
reg("np.select", "np.select([mask, ~mask], [a, b]) #K#B", "np.select([mask], [a], default=b[0]) #K#B")
reg("np.choose", "np.choose([0, 1, 0, 1, 1, 0], [a, b]) #K#B", "np.choose([0, 2, 1, 1, 4, 0], [a, b], mode='wrap') #K#B")
reg("np.clip", "np.clip(a, asort[1], asort[4]) #K#B", "np.clip(a, b, None) #K#B", "a.clip(asort[1], asort[4]) #K#B", "np.clip(a, None, asort[3]) #K#B",
    "np.clip(M, asort[1], asort[4], out=None) #K#B")
reg("np.maximum", "np.maximum(a, b) #K#B", "np.minimum(a, b[2]) #K#B", "np.fmax(a, b) #K#B")
reg("np.put", "ip(lambda z: np.put(z, idx, b[:3]), a) #K#B#I", "ip(lambda z: np.put(z, [7, 1], b[:2], mode='wrap'), a) #K#B#I",
    "ip(lambda z: np.put(z, [9, 1], b[:2], mode='clip'), a) #K#B#I", "ip(lambda z: z.put(idx, b[0]), a) #K#B#I")
reg("np.place", "ip(lambda z: np.place(z, mask, b[:2]), a) #K#B#I")
reg("np.putmask", "ip(lambda z: np.putmask(z, mask, b), a) #K#B#I")
reg("np.put_along_axis", "ip(lambda z: np.put_along_axis(z, np.array([[0], [2], [1]]), N[:, :1], axis=1), M) #K#B#I")
reg("np.fill_diagonal", "ip(lambda z: np.fill_diagonal(z, b[0]), S) #K#B#I", "ip(lambda z: np.fill_diagonal(z, b[:3]), S) #K#B#I",
    "ip(lambda z: np.fill_diagonal(z, b[:2], wrap=True), M) #K#B#I")
reg("np.copyto", "ip(lambda z: np.copyto(z, b), a) #K#B#I", "ip(lambda z: np.copyto(z, b, where=mask), a) #K#B#I")
reg("setitem", "ip(lambda z: z.__setitem__(1, b[0]), a) #K#B#I", "ip(lambda z: z.__setitem__(slice(1, 4), b[:3]), a) #K#B#I",
    "ip(lambda z: z.__setitem__(mask, b[mask]), a) #K#B#I", "ip(lambda z: z.fill(b[0]), a) #K#B#I")
reg("np.isin", "np.isin(a, np.concatenate([b[:2], a[:2]])) #B", "np.isin(a, a[::2], invert=True) #B")
reg("np.intersect1d", "np.intersect1d(a, np.concatenate([b[:2], a[:3]])) #K#B", "np.intersect1d(a, a[1:4], return_indices=True) #B")
reg("np.union1d", "np.union1d(a, b) #K#B")
reg("np.setdiff1d", "np.setdiff1d(a, a[1:3]) #K#B", "np.setdiff1d(np.concatenate([a, b]), b) #K#B")
reg("np.setxor1d", "np.setxor1d(a, np.concatenate([a[:3], b[:2]])) #K#B")
reg("np.linspace", "np.linspace(qa, qa2, 5) #K#B", "np.linspace(a[:2], b[:2], 4) #K#B", "np.linspace(qa, qa2, 4, endpoint=False, retstep=True) #B",
    "np.linspace(a[:2], b[:2], 3, axis=1) #K#B")
reg("np.geomspace", "np.geomspace(pos[0], pos[1], 4) #K#B#T", "np.geomspace(pos[:2], pos[2:4], 3) #K#B#T")
reg("np.logspace", "np.logspace(nb[0] * qa / qa, nb[1] * qa / qa, 3)")
reg("np.isclose", "np.isclose(a, b, atol=0) #B", "np.isclose(a, a, atol=0) #B", "np.isclose(a, a * (1 + 1e-9), atol=0) #B", "np.isclose(a, b, rtol=0.5, atol=0) #B")
reg("np.allclose", "np.allclose(a, b, atol=0) #B", "np.allclose(a, a * (1 + 1e-9), atol=0) #B", "np.allclose(a, a, rtol=0, atol=0) #B")
reg("np.array_equal", "np.array_equal(a, b) #B", "np.array_equal(a, a.copy()) #B", "np.array_equiv(a, np.stack([a, a])) #B", "np.array_equiv(a, b) #B")
reg("np.pad", "np.pad(a, 2) #K", "np.pad(a, (1, 2), constant_values=qa) #K#B", "np.pad(M, 1, mode='edge') #K", "np.pad(a, 2, mode='reflect') #K",
    "np.pad(a, 1, mode='mean') #K", "np.pad(a, 2, mode='linear_ramp', end_values=qa) #K#B")
reg("np.apply_along_axis", "np.apply_along_axis(lambda r: r[0], 0, M) #K", "np.apply_along_axis(np.sort, 1, M) #K")
reg("np.apply_over_axes", "np.apply_over_axes(np.sum, T4, [0, 2]) #K", "np.apply_over_axes(np.prod, T4, [0])")

# ---- constructors -----------------------------------------------------------------------
reg("np.zeros_like", "np.zeros_like(a) #K", "np.zeros_like(M) #K")
reg("np.ones_like", "np.ones_like(a) #N#X")
reg("np.empty_like", "np.shape(np.empty_like(M))")
reg("np.full_like", "np.full_like(a, qa) #K#B", "np.full_like(M, qa) #K#B")
reg("np.array", "np.array(a) #N#X", "np.array([qa, qa2]) #N#X", "np.asarray(a) #N#X")

# ---- strings / IO -------------------------------------------------------------------------
reg("np.array2string", "np.array2string(a) #S", "np.array_repr(a) #S", "np.array_str(a) #S", "repr(a) #S", "str(qa) #S", "format(qa, '.2f') #S")

# ---- ndarray methods with axis / keyword arguments ----------------------------------------
reg("methods",
    "M.argsort(axis=0)", "M.argsort(axis=None)", "M.argsort(axis=-1)", "M.argsort(0)", "a.argsort(kind='stable')", "M.argmax(axis=1)", "M.argmin(axis=0)",
    "M.argmax(axis=None)", "M.sum(axis=0) #K", "M.sum(axis=None) #K", "M.sum(0) #K", "M.sum(axis=1, keepdims=True) #K", "M.mean(axis=0) #K",
    "M.mean(axis=1, keepdims=True) #K", "M.max(axis=0) #K", "M.min(axis=1) #K", "M.max(1) #K", "M.std(axis=1, ddof=1) #K", "M.std(0) #K",
    "M.var(axis=0)", "M.var(1, ddof=1)", "M.prod(axis=0)", "M.prod(1)", "M.cumsum(axis=0) #K", "M.cumsum(1) #K", "M.round(decimals=1) #K#R",
    "M.round(1) #K#R", "M.clip(asort[1], asort[4]) #K#B", "M.clip(min=asort[1]) #K#B", "M.clip(max=asort[4]) #K#B", "M.take([0, 2], axis=1) #K",
    "M.take([0, 2], 0) #K", "M.take([5, 1], mode='wrap') #K", "M.repeat(2, axis=0) #K", "M.repeat(2, 1) #K", "M.compress([True, False, True], axis=0) #K",
    "M.trace(offset=1) #K", "S.trace(1) #K", "M.diagonal(offset=1) #K", "M.diagonal(1) #K", "T4.diagonal(0, 1, 2) #K", "M.swapaxes(0, 1) #K",
    "M.transpose(1, 0) #K", "T4.transpose(2, 0, 1) #K", "M.reshape((4, 3), order='F') #K", "M.ravel(order='F') #K", "M.flatten('F') #K",
    "M.dot(P)", "M.all(axis=0)", "M.any(axis=1)", "asort.searchsorted(b[1], 'right') #B", "a.nonzero()[0]", "M.squeeze() #K",
    "(lambda z: (z.sort(axis=0), z)[1])(M) #K#I", "(lambda z: (z.partition(2), np.sort(z[:2]))[1])(a) #K#I",
    "(lambda z: (z.resize((2, 3), refcheck=False), z)[1])(a) #K#I", "(lambda z: (z.fill(b[1]), z)[1])(M) #K#B#I",
    "(lambda z: (z.itemset if False else z.__setitem__)((0, 1), b[0]) or z)(M) #K#B#I", "M.tolist() #X", "a.item(2) #X", "M.item(1, 2) #X", "a.tobytes() #S",
    "M.view(np.ndarray) #X", "M.astype('int64') #K#R", "M.astype('float32', copy=False) #K", "a.conj() #K", "a.conjugate() #K", "np.conj(a) #K",
    "abs(a) #K", "-a #K", "+a #K", "a.__abs__() #K", "divmod(nb, nb[::-1])[0]", "M.ptp(axis=0) if hasattr(M, 'ptp') else np.ptp(M, axis=0) #K")

# ---- out= variants (returned value and buffer are both compared) -----------------------------
reg("out=",
    "(lambda o: (np.around(a, 2, out=o), o))(buf((6,))) #K#R", "(lambda o: (np.around(a, decimals=1, out=o), o))(buf((6,))) #K#R",
    "(lambda o: (np.round(a, 1, out=o), o))(buf((6,))) #K#R", "(lambda o: (np.around(a, out=o), o))(buf((6,))) #K#R",
    "(lambda o: (np.around(M, -1, o), o))(buf((3, 4))) #K#R", "(lambda o: (a.round(2, out=o), o))(buf((6,))) #K#R",
    "(lambda o: (np.clip(a, asort[1], asort[4], out=o), o))(buf((6,))) #K#B", "(lambda o: (a.clip(asort[1], asort[4], out=o), o))(buf((6,))) #K#B",
    "(lambda o: (np.sum(M, axis=0, out=o), o))(buf((4,))) #K", "(lambda o: (M.sum(axis=1, out=o), o))(buf((3,))) #K", "(lambda o: (np.mean(M, axis=0, out=o), o))(buf((4,))) #K",
    "(lambda o: (np.cumsum(a, out=o), o))(buf((6,))) #K", "(lambda o: (np.max(M, axis=1, out=o), o))(buf((3,))) #K", "(lambda o: (np.min(M, 0, o), o))(buf((4,))) #K",
    "(lambda o: (np.take(a, idx, out=o), o))(buf((3,))) #K", "(lambda o: (np.take(M, [0, 2], axis=1, out=o), o))(buf((3, 2))) #K",
    "(lambda o: (np.take(a, [7, -1], mode='wrap', out=o), o))(buf((2,))) #K", "(lambda o: (np.choose([0, 1, 0, 1, 1, 0], [a, b], out=o), o))(buf((6,))) #K#B",
    "(lambda o: (np.concatenate([a, b], out=o), o))(buf((12,))) #K#B", "(lambda o: (np.stack([a, b], out=o), o))(buf((2, 6))) #K#B",
    "(lambda o: (np.std(M, axis=0, out=o), o))(buf((4,))) #K", "(lambda o: (np.trace(S, out=o), o))(buf(())) #K", "(lambda o: (np.compress(mask, a, out=o), o))(buf((3,))) #K",
    "(lambda o: (np.add(a, b, out=o), o))(buf((6,))) #K#B", "(lambda o: (np.negative(a, out=o), o))(buf((6,))) #K", "(lambda o: (np.multiply(a, 2.0, out=o), o))(buf((6,))) #K",
    "(lambda o: (np.maximum(a, b, out=o), o))(buf((6,))) #K#B", "(lambda o: (np.abs(a, out=o), o))(buf((6,))) #K", "(lambda o: (np.cumsum(M, axis=1, out=o), o))(buf((3, 4))) #K",
    "(lambda o: (np.median(M, axis=0, out=o), o))(buf((4,))) #K", "(lambda o: (np.percentile(a, 30, out=o), o))(buf(())) #K", "(lambda o: (np.quantile(M, 0.5, axis=0, out=o), o))(buf((4,))) #K",
    "(lambda o: (np.nansum(M, axis=0, out=o), o))(buf((4,))) #K", "(lambda o: (np.ptp(M, axis=0, out=o), o))(buf((4,))) #K", "(lambda o: (np.diagonal(S).copy(), o))(buf((3,))) #K",
    "(lambda o: (np.dot(M, nM.T, out=o), o))(buf((3, 3))) #K", "(lambda o: (np.matmul(M, nM.T, out=o), o))(buf((3, 3))) #K", "(lambda o: (np.einsum('ij->i', M, out=o), o))(buf((3,))) #K",
    "(lambda o: (np.linalg.eigvalsh(Sym), o))(buf((3,))) #T", "(lambda o: (np.outer(a, nb, out=o), o))(buf((6, 6))) #K", "(lambda o: (np.where(mask, a, b), o))(buf((6,))) #K#B")

# ---- declared unsupported ----------------------------------------------------------------
reg("unsupported", "np.polyfit(a, c, 1) #U", "np.polyval(a[:3], c) #U", "np.roots(a[:3]) #U", "np.poly(a[:3]) #U", "np.polyadd(a, b) #U", "np.polysub(a, b) #U",
    "np.polymul(a, b) #U", "np.polydiv(a, b[:2]) #U", "np.polyder(a) #U", "np.polyint(a) #U", "np.vander(a) #U", "np.ix_(a, b) #U",
    "np.piecewise(a, [mask, ~mask], [lambda t: t, lambda t: -t]) #U", "np.packbits(a) #U", "np.unpackbits(a) #U")


def flags(t):
    return set(t.split("#")[1:]) if "#" in t else set()


def expr(t):
    return t.split("#")[0].strip()

# ---- late additions: functions reachable through NumPy's dispatch that the groups above did not name
reg("np.lib.stride_tricks.sliding_window_view", "np.lib.stride_tricks.sliding_window_view(a, 2, subok=True) #K", "np.lib.stride_tricks.sliding_window_view(M, (2, 2), subok=True) #K")
reg("np.emath.sqrt", "np.emath.sqrt(pos)", "np.emath.power(pos, 2)")
reg("np.require", "np.require(M.T, requirements='C') #K", "np.require(a, dtype=None, requirements=['A', 'O']) #K")
reg("np.asfortranarray", "np.asfortranarray(M) #N#X")
# odd-length axes for the fft shifts (fftshift and ifftshift coincide on even lengths), deeper nesting for the block/stack family
reg("np.fft.fftshift", "np.fft.fftshift(u3) #K", "np.fft.ifftshift(u3) #K", "np.fft.ifftshift(S) #K", "np.fft.ifftshift(S, axes=0) #K", "np.fft.fftshift(a[:5]) #K", "np.fft.ifftshift(a[:5]) #K",
    "np.fft.ifftshift(np.fft.fftshift(a[:5])) #K", "np.fft.ifftshift(T4[:, :, :3], axes=(1, 2)) #K")
reg("np.block", "np.block([[[a], [a2]], [[a2], [a]]]) #K", "np.block([[M, M2], [M2, M]]) #K", "np.block([[[u3]], [[u3]]]) #K", "np.block([[[[a]]]]) #K", "np.block([[a, a2]]) #K")
reg("nested-list-args", "np.concatenate([[a, a2], [a2, a]]) #K", "np.stack([[a, a2], [a2, a]]) #K", "np.vstack([[a], [a2]]) #K", "np.hstack([[a, a2], [a2, a]]) #K", "np.concatenate([[[a, a2]], [[a2, a]]], axis=1) #K",
    "np.concatenate(([a, a], [a2, a2]), axis=0) #K")
# tuples of axes (some left standing), nested per-axis fill values, bare-first comparisons near the tolerance boundary
reg("methods", "T4.prod(axis=(0, 1))", "T4.prod(axis=(-1,))", "T4.sum(axis=(0, 2)) #K", "T4.var(axis=(1, 2))", "T4.std(axis=(0, 1)) #K", "T4.max(axis=(0, 2)) #K", "T4.mean(axis=(-1,)) #K",
    "T4.min(axis=(1,)) #K", "T4.ptp(axis=(0, 1)) #K" if hasattr(np.ndarray, "ptp") else "T4.sum(axis=(1,)) #K")
reg("np.prod", "np.prod(T4, axis=(0, 1))", "np.prod(T4, axis=(0, 2), keepdims=True)", "np.multiply.reduce(T4, axis=(0, 1))", "np.multiply.reduce(T4, axis=(1,))", "np.add.reduce(T4, axis=(0, 2)) #K",
    "np.var(T4, axis=(0, 1))", "np.median(T4, axis=(0, 1)) #K", "np.nanprod(T4, axis=(1, 2))", "np.ptp(T4, axis=(0, 1)) #K", "np.linalg.norm(T4, axis=(1, 2)) #K#T")
reg("np.count_nonzero", "np.count_nonzero(T4, axis=(0, 1))", "np.count_nonzero(M, axis=0)", "np.count_nonzero(M, axis=1, keepdims=True)")
reg("np.pad", "np.pad(M, 1, constant_values=((q2lo, q2hi), (qa, q2lo))) #K", "np.pad(M, ((1, 0), (0, 2)), constant_values=((qa, q2hi), (q2lo, qa))) #K",
    "np.pad(a, (1, 2), mode='linear_ramp', end_values=((q2lo, q2hi),)) #K", "np.pad(M, 1, mode='linear_ramp', end_values=((q2lo, qa), (qa, q2hi))) #K", "np.pad(a, 2, constant_values=[(q2lo, q2hi)]) #K")
reg("np.isclose", "np.isclose(np.asarray(a) * 1.25, a, rtol=0.22, atol=0) #X", "np.isclose(a, np.asarray(a) * 1.25, rtol=0.22, atol=0) #X", "np.allclose(np.asarray(a) * 1.25, a, rtol=0.22, atol=0) #X",
    "np.isclose((np.asarray(a) * 1.25).tolist(), a, rtol=0.22, atol=0) #X", "np.isclose(float(np.asarray(qa)) * 0.8, qa, rtol=0.22, atol=0) #X")
reg("np.permute_dims", "np.permute_dims(T4, (1, 0, 2)) #K", "np.cumulative_sum(M, axis=1, include_initial=True) #K")


# square operands along the non-default axis: a handler that loses axis= keeps the result shape here, so an out= buffer
# is accepted and only the numbers tell (the out= spellings of these are derived in all_templates)
for _f in ("sum", "mean", "std", "max", "min", "median", "ptp", "cumsum", "nansum", "nanmean", "nanmax", "nanmin", "nanstd", "nanmedian", "amax", "amin", "average"):
    reg("np." + _f, f"np.{_f}(S, axis=1) #K")
for _f in ("prod", "var", "cumprod", "nanvar", "nanprod", "nancumsum", "nancumprod"):
    reg("np." + _f, f"np.{_f}(S, axis=1)" + (" #K" if _f == "nancumsum" else ""))
reg("np.percentile", "np.percentile(S, 30, axis=1) #K", "np.quantile(S, 0.3, axis=1) #K", "np.nanpercentile(S, 30, axis=1) #K", "np.nanquantile(S, 0.3, axis=1) #K")
reg("np.stack", "np.stack([a[:2], b[:2]], axis=1) #K#B", "np.stack([u3, u3 * 2, u3 * 3], axis=1) #K", "np.stack([a[:2], a2[:2]], axis=-1) #K", "np.stack([S, Sym, S * 2], axis=2) #K",
    "np.stack([S, Sym, S * 2], axis=1) #K")
reg("np.take", "np.take(S, [2, 0, 1], axis=1) #K", "S.take([2, 0, 1], axis=1) #K", "np.compress([True, True, True], S, axis=1) #K", "np.take_along_axis(S, np.argsort(np.asarray(S), axis=0), axis=0) #K")
reg("np.sort", "np.sort(S, axis=0) #K", "np.flip(S, axis=1) #K", "np.roll(S, 1, axis=1) #K", "np.diff(np.concatenate([S, S[:1]]), axis=0) #K", "np.gradient(S, axis=1) #K",
    "np.partition(S, 1, axis=0)[1] #K", "np.linalg.norm(S, axis=0) #K#T", "np.trapezoid(S, axis=0) #K", "np.concatenate([S[:, :2], Sym[:, :1]], axis=1) #K")

import re as _re

_GROUPS = {"methods", "out=", "indexing", "iteration", "setitem", "unsupported", "inplace-operator"}


def func_key(group, ex):
    """root-cause key of a template: the function it exercises (group names are refined from the expression)"""
    if group not in _GROUPS:
        return group
    m = _re.search(r"np\.[A-Za-z_][\w.]*", ex)
    if m and group != "methods":
        return group + ":" + m.group(0)
    m = _re.search(r"\.([a-z_]\w*)\(", ex)
    if m:
        return group + ":." + m.group(1)
    return group


def _keyword_variant(ex):
    """the same call with every argument after the first spelled as a keyword (where the NumPy signature allows it);
    None when the template is not a single np.* call, has fewer than two positional arguments, or the signature is unknown.
    Handlers that pick their arguments apart by hand must treat both spellings alike."""
    import ast
    import inspect

    try:
        tree = ast.parse(ex, mode="eval").body
    except SyntaxError:
        return None
    if not isinstance(tree, ast.Call) or len(tree.args) < 2 or any(isinstance(a_, ast.Starred) for a_ in tree.args):
        return None
    parts = []
    f = tree.func
    while isinstance(f, ast.Attribute):
        parts.append(f.attr)
        f = f.value
    if not (isinstance(f, ast.Name) and f.id == "np"):
        return None
    obj = np
    for nm in reversed(parts):
        obj = getattr(obj, nm, None)
        if obj is None:
            return None
    if isinstance(obj, np.ufunc):
        return None
    try:
        params = list(inspect.signature(obj).parameters.values())
    except (TypeError, ValueError):
        return None
    given = {k.arg for k in tree.keywords}
    new_kw = []
    keep = [tree.args[0]]
    for a_, prm in zip(tree.args[1:], params[1:]):
        if prm.kind is not inspect.Parameter.POSITIONAL_OR_KEYWORD or prm.name in given or new_kw is None:
            return None  # positional-only / *args: leave the template alone
        new_kw.append(ast.keyword(arg=prm.name, value=a_))
    if len(tree.args) - 1 > len(params) - 1 or not new_kw:
        return None
    call = ast.Call(func=tree.func, args=keep, keywords=new_kw + tree.keywords)
    return ast.unparse(ast.fix_missing_locations(ast.Expression(body=call)))


def _np_object(func_node):
    import ast

    parts = []
    f = func_node
    while isinstance(f, ast.Attribute):
        parts.append(f.attr)
        f = f.value
    if not (isinstance(f, ast.Name) and f.id == "np"):
        return None
    obj = np
    for nm in reversed(parts):
        obj = getattr(obj, nm, None)
        if obj is None:
            return None
    return obj


def _positional_variant(ex):
    """the same expression with the keyword arguments of its first NumPy call (also inside a lambda) spelled positionally, skipped
    parameters filled with their documented defaults: np.copyto(z, s, where=m) -> np.copyto(z, s, 'same_kind', m).  None when
    no call qualifies (ufuncs, keyword-only parameters, defaults that cannot be written down)."""
    import ast
    import inspect

    try:
        tree = ast.parse(ex, mode="eval")
    except SyntaxError:
        return None
    for node in ast.walk(tree):
        if not isinstance(node, ast.Call) or not node.keywords or any(k.arg is None for k in node.keywords) or any(isinstance(a_, ast.Starred) for a_ in node.args):
            continue
        obj = _np_object(node.func)
        if obj is None or isinstance(obj, np.ufunc) or not callable(obj):
            continue
        try:
            params = list(inspect.signature(obj).parameters.values())
        except (TypeError, ValueError):
            continue
        kw = {k.arg: k.value for k in node.keywords}
        names = [p_.name for p_ in params]
        if not all(k in names for k in kw):
            continue
        last = max(names.index(k) for k in kw)
        if last < len(node.args):
            continue
        new_args = list(node.args)
        ok = True
        for p_ in params[len(node.args): last + 1]:
            if p_.kind is not inspect.Parameter.POSITIONAL_OR_KEYWORD:
                ok = False
                break
            if p_.name in kw:
                new_args.append(kw.pop(p_.name))
            elif p_.default is None or isinstance(p_.default, (bool, int, float, str)):
                new_args.append(ast.Constant(value=p_.default))
            else:
                ok = False
                break
        if not ok or kw:
            continue
        node.args = new_args
        node.keywords = []
        return ast.unparse(ast.fix_missing_locations(tree))
    return None


_KW_CACHE = {}
_POS_CACHE = {}


def all_templates():
    out = []
    seen = set()
    for fn, tl in CATALOG.items():
        for t in tl:
            ex = expr(t)
            fl = frozenset(f.strip() for f in flags(t))
            out.append((func_key(fn, ex), ex, fl))
            seen.add(ex.replace(" ", ""))
    # derived: keyword spellings of the positional templates
    for key, ex, fl in list(out):
        if ex not in _KW_CACHE:
            _KW_CACHE[ex] = _keyword_variant(ex)
        kv = _KW_CACHE[ex]
        if kv and kv.replace(" ", "") not in seen:
            seen.add(kv.replace(" ", ""))
            out.append((key, kv, fl))
    # derived: positional spellings of keyword arguments (skipped parameters filled with their defaults)
    for key, ex, fl in list(out):
        if ex not in _POS_CACHE:
            _POS_CACHE[ex] = _positional_variant(ex)
        pv = _POS_CACHE[ex]
        if pv and pv.replace(" ", "") not in seen:
            seen.add(pv.replace(" ", ""))
            out.append((key, pv, fl))
    # derived: out= spellings of every single-call template whose NumPy signature has an out parameter, and the other
    # axes (with keepdims) of every reduction / join / selection template that names a 2-d or 3-d operand without an axis
    for key, ex, fl in list(out):
        if ex not in _DERIVED_CACHE:
            _DERIVED_CACHE[ex] = _derived_variants(ex)
        for kind, dv in _DERIVED_CACHE[ex]:
            if dv.replace(" ", "") in seen:
                continue
            seen.add(dv.replace(" ", ""))
            if kind == "out":
                fk = key if key.startswith("out=") else "out=:" + key
                out.append((fk, dv, fl))
            else:
                out.append((key, dv, fl))
    return out


_DERIVED_CACHE = {}
_FIXED = None


def _fixed_data():
    """one fixed data set, used only to learn the result shape of a template (for the out= buffer)"""
    global _FIXED
    if _FIXED is None:
        _FIXED = make_data(lambda n: [((k * 37) % 311 - 155) / 8 + (0.0625 if (k * 37) % 311 == 155 else 0) for k in range(n)])
    return _FIXED


def _np_callable(func_node):
    import ast

    parts = []
    f = func_node
    while isinstance(f, ast.Attribute):
        parts.append(f.attr)
        f = f.value
    if not (isinstance(f, ast.Name) and f.id == "np"):
        return None
    obj = np
    for nm in reversed(parts):
        obj = getattr(obj, nm, None)
        if obj is None:
            return None
    return obj


_ND_NAMES = {"M": 2, "N": 2, "P": 2, "S": 2, "R": 2, "Sym": 2, "T4": 3, "M2": 2, "S6": 2, "P4S": 2, "Pi": 2, "t2": 2, "nM": 2}


def _derived_variants(ex):
    import ast
    import inspect

    try:
        tree = ast.parse(ex, mode="eval").body
    except SyntaxError:
        return []
    if not isinstance(tree, ast.Call) or any(isinstance(a_, ast.Starred) for a_ in tree.args):
        return []
    given = {k.arg for k in tree.keywords}
    method = False
    obj = _np_callable(tree.func)
    if obj is None:
        # method call on a plain operand name: x.f(...)
        if isinstance(tree.func, ast.Attribute) and isinstance(tree.func.value, ast.Name) and tree.func.value.id in ROLE_OF:
            obj = getattr(np.ndarray, tree.func.attr, None)
            method = True
        if obj is None:
            return []
    names = None
    if isinstance(obj, np.ufunc):
        names = {"out"} if (obj.nout == 1 and not method) else set()
    else:
        try:
            names = set(inspect.signature(obj).parameters)
        except (TypeError, ValueError):
            doc = (getattr(obj, "__doc__", "") or "")[:400]
            names = {n for n in ("out", "axis", "keepdims") if n + "=" in doc.split("\n\n")[0]}
    res = []

    def with_kw(**kw):
        call = ast.Call(func=tree.func, args=list(tree.args),
                        keywords=list(tree.keywords) + [ast.keyword(arg=k, value=v) for k, v in kw.items()])
        return ast.unparse(ast.fix_missing_locations(ast.Expression(body=call)))

    def const(v):
        return ast.parse(repr(v), mode="eval").body

    base_variants = [ex]
    # ---- other axes -------------------------------------------------------------------
    first = tree.args[0] if tree.args else (tree.func.value if method else None)
    nd = _ND_NAMES.get(first.id) if isinstance(first, ast.Name) else None
    if method:
        nd = _ND_NAMES.get(tree.func.value.id)
    if isinstance(first, (ast.List, ast.Tuple)) and first.elts and all(isinstance(e_, ast.Name) for e_ in first.elts):
        nd = -1  # a join of named operands: the other axes are tried, NumPy itself refuses the impossible ones
    if "axis" in names and "axis" not in given and nd and not isinstance(obj, np.ufunc):
        for ax in ([1, -1] if nd == -1 else [1, -2] if nd == 2 else [1, -1, (0, 2)]):
            v = with_kw(axis=const(ax))
            res.append(("axis", v))
            base_variants.append(v)
            if "keepdims" in names and "keepdims" not in given and ax in (1, (0, 2)):
                v2 = with_kw(axis=const(ax), keepdims=const(True))
                res.append(("axis", v2))
    # ---- out= -------------------------------------------------------------------------
    if "out" in names and "out" not in given:
        data = _fixed_data()
        for bv in base_variants:
            try:
                r = evaluate(bv, data, lambda x, role: x)
            except Exception:
                continue
            if not isinstance(r, np.ndarray) and not isinstance(r, np.generic):
                continue
            r = np.asarray(r)
            if r.dtype.kind != "f":
                continue
            t2 = ast.parse(bv, mode="eval").body
            call = ast.Call(func=t2.func, args=list(t2.args), keywords=list(t2.keywords) + [ast.keyword(arg="out", value=ast.Name(id="o", ctx=ast.Load()))])
            inner = ast.unparse(ast.fix_missing_locations(ast.Expression(body=call)))
            res.append(("out", f"(lambda o: ({inner}, o))(buf({tuple(r.shape)!r}))"))
    return res


# ---- data --------------------------------------------------------------------------------
ROLE_OF = {"a2": "A2", "M2": "A2", "q2lo": "A2", "q2hi": "A2", "a2sorted": "A2", "pos2": "A2", "bsort": "A", "csort": "B", "t": "A", "t2": "A", "tz": "A", "a": "A", "b": "A", "asort": "A", "M": "A", "N": "A", "S": "A", "Sym": "A", "u3": "A", "T4": "A", "qa": "A", "qa2": "A", "pos": "A",
           "S6": "A", "P4S": "A", "ci": "I", "Pi": "I", "vi": "I", "c": "B", "P": "B", "R": "B", "v": "B", "qb": "B", "v4": "B", "ang": "G", "angp": "G"}
BARE = ["nb", "nM", "nM3"]


def make_data(draw_vals):
    """draw_vals(n) -> list of n distinct non-zero dyadic rationals (caller supplies the randomness)"""
    d = {}
    vals = draw_vals(288)
    it = iter(vals)

    def take(shape):
        n = int(np.prod(shape)) if shape else 1
        return np.array([next(it) for _ in range(n)], dtype=float).reshape(shape)

    d["a"] = take((6,))
    d["b"] = take((6,))
    d["asort"] = np.sort(d["a"])
    d["c"] = take((6,))
    d["M"] = take((3, 4))
    d["N"] = take((3, 4))
    d["P"] = take((4, 3))
    d["S"] = take((3, 3)) / 8 + 4 * np.eye(3)
    d["R"] = take((3, 3)) / 8 + 4 * np.eye(3)
    sy = take((3, 3)) / 8
    d["Sym"] = sy @ sy.T + 2 * np.eye(3)
    d["u3"] = take((3,))
    d["v"] = take((3,))
    d["v4"] = take((4,))
    d["T4"] = take((2, 3, 4))
    d["qa"] = take(())
    d["qa2"] = take(())
    d["qb"] = np.abs(take(())) + 0.5
    d["pos"] = np.abs(take((6,))) + 0.5
    d["S6"] = take((6, 6)) / 8 + 4 * np.eye(6)
    d["P4S"] = take((4, 3)) / 8 + np.eye(4, 3) * 4
    d["ang"] = np.cumsum(np.abs(take((6,)))) * 4
    d["angp"] = np.array(16.0)
    d["ci"] = take((6,))
    d["Pi"] = take((4, 3))
    d["vi"] = take((3,))
    d["a2"] = take((6,))
    d["M2"] = take((3, 4))
    d["q2lo"] = np.array(d["asort"][0] - 1.0)  # strictly outside the data so that unit-conversion rounding cannot move a value across an edge
    d["q2hi"] = np.array(d["asort"][-1] + 1.0)
    d["a2sorted"] = np.sort(d["a2"])
    d["pos2"] = np.abs(take((2,))) + 0.5
    d["bsort"] = np.sort(d["b"])
    d["csort"] = np.sort(d["c"])
    tt = take((4,))
    d["t"] = np.array([tt[0], tt[1], tt[0], tt[2], tt[1], tt[0], tt[3], tt[2]])  # equal keys
    d["t2"] = np.array([[tt[0], tt[1]], [tt[0], tt[0]], [tt[2], tt[1]], [tt[0], tt[1]]])
    d["tz"] = np.array([0.0, tt[0], 0.0, tt[1], tt[0], 0.0])
    d["nb"] = np.abs(take((6,))) + 0.25
    d["nM"] = take((3, 4))
    d["nM3"] = take((3, 3)) / 8 + 4 * np.eye(3)
    return d


CONSTS = {
    "idx": np.array([0, 2, 4]), "idx2": np.array([0, 1, 1, 3, 2, 1]), "k": 2,
    "mask": np.array([True, False, True, False, False, True]),
    "cond2": np.array([[True, False, True, False]] * 3),
}


def evaluate(expr_text, data, wrap):
    """evaluate one template; every wrapped operand is a fresh copy"""
    env = {"np": np}
    env.update({k: (v.copy() if hasattr(v, "copy") else v) for k, v in CONSTS.items()})
    for k, v in data.items():
        env[k] = wrap(v.copy(), ROLE_OF.get(k)) if k in ROLE_OF else v.copy()

    def ip(fn, target):
        fn(target)
        return target

    env["ip"] = ip
    env["buf"] = lambda shape, role="A": wrap(np.zeros(shape), role)
    return eval(expr_text, env)  # noqa: S307 - templates are the fixed strings above


def flatten(res):
    """flatten a result into a list of leaves (arrays / scalars / strings)"""
    if isinstance(res, (tuple, list)) and not hasattr(res, "units"):
        out = []
        for r in res:
            out.extend(flatten(r))
        return out
    return [res]
