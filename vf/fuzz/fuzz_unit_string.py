#!/venv/bin/python
"""Coverage-guided fuzz target for C20: Unit(<fuzzer bytes>) must return a Unit or raise UnitParseError.

Oracle inside the target (a target that only waits for crashes checks nothing): any other
exception type is reported as 'VF-VIOLATION <key> :: <string>' and aborts the campaign so that
libFuzzer saves the input; audit-hook events outside the parser's own activity are reported the
same way; a parsed unit must survive str()->Unit round trip.  Numeric power towers are filtered
(resource guard); libFuzzer's -timeout catches the rest (inconclusive, not a violation).
"""
import os
import sys

sys.path[:0] = ["/verif", "/verif/.deps", "/repo"]
import atheris  # noqa: E402

with atheris.instrument_imports(include=["unyt"]):
    import unyt  # noqa: F401
    from unyt import Unit  # noqa: F401

from vf.checks import c20  # noqa: E402
from vf import core  # noqa: E402

KNOWN = core.Known("C20")


def TestOneInput(data):
    try:
        s = data.decode("utf-8", errors="surrogateescape")
        s.encode("utf-8")
    except Exception:
        return
    if c20.resource_risky(s):
        return
    # unyt memoises parsed strings per registry: drop it so that every iteration starts from the same state
    unyt.unit_registry.default_unit_registry._unit_object_cache.clear()
    part = core.Part()
    out = []
    r = c20.totality(s, part, out, "fuzz")
    if r is not None and r[0] == "unit":
        try:
            sc = float(r[1].base_value)
            if sc == sc and sc not in (0.0, float("inf"), float("-inf")):
                out += c20.roundtrip(r[1], part, s)
        except Exception:
            pass
    for key, det in out:
        if KNOWN.match(key) is None:
            print(f"VF-VIOLATION {key} :: {s!r}", flush=True)
            raise RuntimeError(key)


if __name__ == "__main__":
    atheris.Setup(sys.argv, TestOneInput)
    atheris.Fuzz()
