#!/bin/sh
# Offline setup: everything comes from /opt/veriftools/wheels.  Idempotent.
cd "$(dirname "$0")" || exit 1
WH=/opt/veriftools/wheels
/venv/bin/python -c "import hypothesis" 2>/dev/null || \
  /venv/bin/pip install -q --no-index --find-links "$WH" hypothesis || exit 1
if [ ! -d .deps/atheris ]; then
  /venv/bin/pip install -q --no-index --find-links "$WH" --target .deps atheris \
    || echo "note: atheris not installed; C20 thorough fuzz campaign will be skipped"
fi
/venv/bin/python -c "import unyt, numpy, sympy, mpmath, hypothesis; print('setup ok', unyt.__file__)"
