#!/bin/sh
# confirm the two changes a sub-agent left in /tmp/wt-<ID>/out (indices $2 $3), store them, run the quick tier of <ID> against each
cd "$(dirname "$0")/.." || exit 2
ID=$1; shift
for i in "$@"; do
  [ -f /tmp/wt-$ID/out/patch$i.diff ] || { echo "$ID $i: no patch"; continue; }
  /venv/bin/python tools/seed.py confirm $ID $i 2>&1 | grep -v WARNING | tail -3
  [ -d seeded/${ID}_$i ] && SEED_WT=1 /venv/bin/python tools/seed.py run ${ID}_$i 2>&1 | grep -v WARNING | head -6
done
