#!/opt/veriftools/pyvenv/bin/python
import json, sys, glob, jsonschema
m = json.load(open('/verif/MANIFEST.json'))
jsonschema.validate(m, json.load(open('/root/.vp/MANIFEST.schema.json')))
es = json.load(open('/root/.vp/EVIDENCE.schema.json'))
bad = 0
for c in m['checks']:
    try:
        jsonschema.validate(json.load(open('/verif/' + c['evidence_file'])), es)
    except Exception as e:
        bad += 1; print("EVIDENCE INVALID", c['property_id'], str(e)[:300])
print("manifest valid;", len(m['checks']), "checks;", bad, "bad evidence files")
