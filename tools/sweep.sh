#!/bin/sh
# quick tier of every check at the given seeds; one line per run; evidence/replay of these runs go to a scratch dir unless KEEP=1
cd "$(dirname "$0")/.." || exit 2
for s in "$@"; do
  for id in C01 C02 C03 C04 C05 C06 C07 C08 C09 C10 C11 C12 C13 C14 C15 C16 C17 C18 C19 C20; do
    if [ -n "$KEEP" ]; then out=$(VERIF_SEED=$s ./check $id quick 2>&1); else out=$(VF_OUT=/tmp/vf-sweep-$s VERIF_SEED=$s ./check $id quick 2>&1); fi
    rc=$?
    echo "seed=$s $id rc=$rc $(echo "$out" | grep "^\[$id\]")"
    [ $rc -ne 0 ] && echo "$out" | grep "^  - \|VIOLATION\|Traceback\|Error" | cut -c1-400 | head -6
  done
done
