#!/venv/bin/python
"""append a 'fixed:' line to known_findings.json:  addfixed.py <property> <commit> <what failed>"""
import json, sys
p = "/verif/known_findings.json"
k = json.load(open(p))
k["fixed"].append(f"fixed: property={sys.argv[1]} {sys.argv[2]} {sys.argv[3]}")
json.dump(k, open(p, "w"), indent=1, ensure_ascii=False)
