chk("C14", "exploration",
    "Exhaustive enumeration of the finite name space: every documented name, every exported "
    "attribute, every prefix-spelling x base string, through string / attribute / custom "
    "namespace / compound routes, judged by an independently written prefix-alias splitter. "
    "The space is finite and fully covered, so within the name inventory this is a complete "
    "decision, not a sample. Two histories on top: doubly-prefixed strings after the inner name was resolved, and every listed "
    "spelling re-resolved in a custom registry after all canonical symbols were re-scaled (alias == canonical x prefix in that registry). 175 user-defined prefixable symbols with spellings the prefix splitter treats specially ('<unit>cm' comoving names and similar): their prefixed forms are prefix x value and every documented name keeps its meaning afterwards.",
    "Trusted: the hand-written alias/prefix table in vf/oracle/table.py and the name inventory "
    "read from unyt as data; scale accuracy of table rows themselves is C02's subject.",
    "exhaustive enumeration against an independent name resolver", "DESIGN.md §3 C14")
chk("C15", "exploration",
    "Exhaustive over the finite product constants x aliases x {plain,_mks,_cgs} x {default + 7 unit-system "
    "registries}, all defining relations and all unit/constant name overlaps; every guise is reduced to an SI "
    "magnitude and compared with the canonical one (1e-12), Gaussian guises via a hand-written CGS/SI pairing, "
    "values against hand-written CODATA/IAU references within fixed tolerance classes. Histories: user-defined unit systems "
    "with offset temperature bases, registries of each system with re-scaled base units (all guises still one quantity) and a "
    "plain registry built afterwards. The documented alias inventory is complete and every alias is judged by value in both namespaces.",
    "Trusted: reference values/relations in vf/oracle/table.py (written from memory of CODATA 2018 / IAU 2015; "
    "class tolerances 1e-7..1e-3); alias inventory read from unyt as data plus a golden alias->constant list.",
    "exhaustive enumeration; cross-guise differential + algebraic relations", "DESIGN.md §3 C15")
chk("C02", "exploration",
    "Every documented name exhaustively against an independently written definition table; x.to(u2) over "
    "same-dimension pairs of all canonical prefixed names (sampled quick, all ~10^5 thorough); thousands of "
    "Hypothesis-generated compound expressions against an exact (40-digit) evaluator, including conversion to a "
    "constructed commensurable partner, custom-registry units and user-defined symbols (add / define_unit / modify) in "
    "plain, cgs, imperial, galactic, solar and custom-system registries probed in random order. Generated search cannot prove absence for "
    "compounds; the name part is complete.",
    "Trusted: vf/oracle/table.py definitions and tolerance classes; compounds judged against products of the "
    "library's own atomic scales; magnitudes beyond 1e+-280 excluded.",
    "exhaustive enumeration + Hypothesis-generated expressions vs independent exact evaluator", "DESIGN.md §3 C02")
chk("C05", "exploration",
    "All 21025 ordered pairs of atomic symbols exhaustively for identity, inverse, commutativity (including refusals "
    "in both orders), the homomorphism onto an independent (scale, dimension-vector) model and equality in both "
    "directions; thousands of Hypothesis-generated compound terms with rational/float exponents in default and "
    "custom registries for associativity, power laws, hashing, simplify()/as_coeff_unit() and re-evaluation of the "
    "carried expression (expression/scale/dimension synchronisation), registry membership of results, hashing of identity "
    "factors, and simplify()/as_coeff_unit() before and after modify / re-add of a symbol.",
    "Trusted: dimension vectors read from unyt's sympy expressions as data; must-equal/must-differ thresholds 1e-12/1e-6; "
    "float under/overflow of intermediates excluded by a magnitude budget.",
    "exhaustive pair enumeration + Hypothesis algebraic-law testing against a (scale, dimvec) model", "DESIGN.md §3 C05")
chk("C01", "exploration",
    "Enumeration of the operation x operand-kind x dimension-pair x shape matrix (~190 forms: every same-dimension ufunc in "
    "call/outer/out=/.at forms, operators and in-place operators, 35 value-merging array functions, item assignment, "
    "conversion routes, Unit+Unit) with the dimension of every operand taken from an independent table; each cell is "
    "judged 'must raise and leave numbers+units of all operands unchanged' or the documented ==/!= answer. A control "
    "population of same-dimension cells guards against an everything-raises tree. Operand kinds include zero-filled quantities "
    "and unit pairs produced by a registry history (a symbol removed and re-added with another dimension). quick samples dimension pairs under "
    "VERIF_SEED, thorough enumerates all representative pairs and all atomic-symbol pairs.",
    "Trusted: vf/oracle/table.py dimension vectors. Unjudged by design (pinned by the existing tests): bare Python numbers "
    "in array-function handlers/item assignment, a[i]=dimensionless quantity, ==/!= and isclose against a dimensionless "
    "operand, CGS<->SI EM counterpart conversions.",
    "matrix enumeration with independent dimension oracle and operand snapshots", "DESIGN.md §3 C01")
chk("C08", "exploration",
    "Exhaustive sweep over every ordered pair of temperature spellings (K, R, degC, degF, delta_degC, delta_degF and the "
    "SI-prefixed forms of the prefixable ones: 24 units quick, 69 thorough) x four conversion routes x (+,-) in operator, "
    "ufunc, in-place and out= form x comparisons, with fixed and Hypothesis-drawn readings held as float64, int64 and float32; per unit the diff/ediff1d/ptp "
    "helpers and ~60 multiplicative/power/root forms that must refuse. Every returned value is compared with an exact-rational "
    "affine model in kelvin, in the scale of the unit the result is labelled with. np.gradient is one of the difference forms.",
    "Trusted: the affine model (s, z) written from the statement; forms the statement does not list (point+point, "
    "difference-point, point-vs-difference comparisons) are counted but not judged; a refusal is always accepted for additive forms.",
    "exhaustive pair-table enumeration + Hypothesis readings vs exact affine model", "DESIGN.md §3 C08")
chk("C03", "exploration",
    "Hypothesis-generated ordered triples of commensurable units in six families (compound units with partners constructed "
    "factor by factor, all temperature spellings x SI prefixes, angle offsets lat/lon, the five CGS<->SI electromagnetic pairs "
    "with prefixes, custom-registry affine units with generated exact-rational scale and offset incl. negative scales, and "
    "float32/complex/integer data) pushed through to / in_units / to_value / convert_to_units / get_conversion_factor by hand / "
    "in_base / in_mks / in_cgs and their in-place twins, with targets spelled as strings and as Unit objects, in the default registry, in a registry that re-scales 21 "
    "default symbols, across registries and after a registry served other definitions of the same names; identity, inverse and composition laws, route agreement in numbers and "
    "resulting unit, exact rational expectation for generated affine parameters; the temperature pair table is enumerated "
    "exhaustively. The symbolic 'for all real scale/offset' clause is searched, not proved. Chains on returned objects also along in_base / in_mks / in_cgs, starting from quantities already in base units.",
    "Trusted: nothing but the laws themselves and exact Fraction arithmetic; tolerance 64 eps x (|value| + zero-point magnitudes / "
    "target scale). 32-bit data restricted to scale ranges that cannot overflow float32.",
    "Hypothesis law/metamorphic testing (round trip, composition, route differential) + exhaustive temperature table", "DESIGN.md §3 C03")
chk("C04", "exploration",
    "Hypothesis-generated straight-line programs (2-4 leaves, up to 10 further steps, ~60 operation spellings incl. in-place, "
    "out=, reductions/accumulate/outer, dot family, powers/roots, trig of angles, comparisons, divmod, deliberately invalid "
    "steps) over leaves in units constructed per dimension. After every instruction the library register is compared with a "
    "reference interpreter working on SI magnitudes and dimension vectors with a propagated forward error bound; sums must be "
    "labelled with the left operand's unit. One program in four runs in a power-of-64 custom registry and is re-run with every "
    "leaf re-expressed: the two runs must denote bit-identical SI magnitudes (exact covariance, also for // and %). Exhaustive side "
    "sweep: sin/cos/tan in 6 spellings x 11 angle units incl. the offset ones (lat, lon, a custom offset angle) against math.* and under re-expression.",
    "Trusted: dimension vectors from vf/oracle/table.py; leaf and result scales read from the library as data (C02/C05 judge "
    "them); registers downstream of a discontinuity/singularity hit are not value-judged; unit-rule lru caches are reset before "
    "each dyadic case (they are keyed by approximate Unit equality). Temperature refusals are C08's.",
    "Hypothesis program generation vs reference interpreter (SI model) + bit-exact metamorphic re-expression", "DESIGN.md §3 C04")
chk("C17", "exploration",
    "Deterministic grid over 13 dtypes x 14 unit pairs x copy routes (to, in_units, to_value) and 7 units x base routes "
    "(in_base, in_mks, in_cgs), each with its in-place twin, at the dtype limits and the documented float-exactness thresholds; "
    "Hypothesis cases over the full integer ranges incl. mixed-unit binary ufuncs (operator, ufunc, in-place, out=, mixed operand "
    "widths). Oracle: exact Fraction conversion rounded to the float type of the input's item size (>=16 bit), complex stays "
    "complex, result dtype equality, copy/in-place agreement in dtype and values, RuntimeWarning iff a value beyond the documented "
    "threshold loses precision; with that warning raised as an error the in-place target is untouched or finished. Side grids: temperature "
    "difference + point of mixed widths, 11 equivalence routes x 8 integer dtypes x 5 forms against the float64-input result, float16/float32 "
    "width kept for units whose scale is stored as a NumPy scalar. Lists / tuples of integer-typed quantities in mixed units as constructor argument and ufunc operand.",
    "Trusted: exact decimal definitions of the 14 unit ratios used; binary ufuncs may return a wider float and are judged at the "
    "width of the rescaled operand; 8-bit operands may refuse in place; overflow to inf of the prescribed type is allowed.",
    "dtype x route grid enumeration + Hypothesis values vs exact rational conversion", "DESIGN.md §3 C17")
chk("C06", "exploration",
    "Differential against NumPy itself: ~990 call templates over ~300 NumPy functions, ndarray methods (with axis/keyword "
    "arguments), indexing forms, in-place targets and out= variants (numpy, numpy.linalg, numpy.fft) are evaluated on bare "
    "copies of Hypothesis-drawn data and on the same data with units attached (one unit per role: no rescaling), for float64, "
    "int64 and complex128 data; either the unyt call raises or structure, shapes, dtype kinds and values agree bit for bit "
    "(<= 8 ulp classed as re-associated rounding), including mutated targets and out= buffers. Data include exact ties, zeros "
    "and boundary arguments (t, tz roles), tuples of axes, odd-length axes, nested per-axis fill values, bare-first comparisons at the tolerance boundary. Units are attached under four unit plans (SI, angles, an offset scale, a logarithmic unit), one per data set; the catalogue now holds ~2450 templates including positional spellings derived from keyword templates.",
    "Trusted: NumPy on the bare data. A raise by the unyt call is accepted (the statement allows it; counted per function). "
    "Empty arrays and string-producing functions are not compared.",
    "catalogue enumeration x Hypothesis data, differential vs NumPy on bare arrays", "DESIGN.md §3 C06")
chk("C07", "exploration",
    "Metamorphic covariance over the same catalogue: every template is evaluated under coherent changes of units of the same "
    "physical data - all roles in power-of-64 custom-registry units (bit-exact), one role only, a second registry that gives "
    "the same symbols other sizes (history/registry independence), and ordinary m->cm, s->ms (rel 1e-9). Unit-carrying results "
    "must denote the same SI magnitudes and dimension, bare results must be unchanged, presence of units may not depend on the "
    "assignment; a role A2 holds the same dimension in another unit than role A (mixed-unit arguments: bins, pad values, "
    "fill values, to_begin/to_end, search keys); templates of the selection/reshaping/sorting/rounding/interpolation/location-spread class must return unyt "
    "objects of the input's dimension and every unit-carrying result must be nameable in its own registry. Includes products "
    "whose units cancel across different scales. No per-function expected unit is used. Positional spellings of keyword arguments are derived for every template; bin edges in another unit are given to histogram, histogram2d, histogramdd and histogram_bin_edges, also with density / weights.",
    "Trusted: SI scale/dimension of *result* units read from the library (C02/C05 judge those). Rounding family excluded from "
    "the numeric clause; LAPACK/FFT/log-based templates judged at rel 1e-9, and a failing tolerant comparison is not judged when the "
    "result is unstable under 1e-12 noise in the data (cancellation, near-degenerate eigenvectors); explicit unit strippers and unit-keeping constant "
    "constructors (ones_like) are outside the claim.",
    "catalogue enumeration x Hypothesis data, metamorphic change of units (bit-exact dyadic + tolerant)", "DESIGN.md §3 C07")
chk("C16", "exploration",
    "Hypothesis cases over 12 shapes (0-d to 3-d incl. (1,), (1,1), empty), 11 units, dtypes, names and 16 indexing forms: "
    "constructors (view vs copy), indexing and iteration (class, units, name, values, view-ness), ~35 view/copy accessors judged "
    "with np.shares_memory and write-through (also unit-carrying data times a Unit object), ~60 unit-returning operations for "
    "the class/shape invariant, coercion of mixed-unit lists (0-d elements and rows) in length, temperature (zero points), energy, "
    "time, mass and angle families; plus the invariant over every unit-carrying leaf produced by the NumPy catalogue.",
    "Trusted: np.shares_memory; the invariant is asserted exactly as stated (shape () => unyt_quantity, size > 1 => not a quantity); "
    "0-d operands are built as quantities (an explicit unyt_array(0-d ndarray) keeps the class the caller asked for).",
    "Hypothesis shape/index/accessor generation with class, aliasing and write-through invariants", "DESIGN.md §3 C16")
chk("C18", "fault_enumeration",
    "Fault enumeration over ~33 in-place call sites (convert_to_units/base/cgs/mks/equivalent, augmented assignment, out=, item "
    "assignment, in-place NumPy functions) x injected fault kinds (dimension mismatch, unknown or malformed unit, invalid "
    "equivalence, bogus unit system, dimensional / non-uniform exponent, offset scale, 8-bit buffer) x 14 operand units (incl. "
    "unsimplified compounds such as km/m, J/erg whose Unit objects simplify() could rewrite) x 6 dtypes x generated values: after a "
    "raise the target's numbers and unit must be intact. Interleaved in the same process with ~75 copying calls and the whole "
    "NumPy catalogue on strided-view operands (bytes of the surrounding buffer, dtype, shape, unit expr/scale/offset/dimension/"
    "str/repr before vs after) and with in-place/copy twin agreement, so state left by a failed call is exposed by what follows. After every "
    "copying call the result is overwritten in place and the inputs are compared again (a 'new object' may not alias its inputs); Unit objects "
    "of a second registry and tolerance quantities passed as arguments are inputs too. out= targets that are fresh views of an operand's memory (x[:], x.view(), shifted windows, a column named twice) with the other operand in another unit, and refused calls with such targets.",
    "Trusted: snapshots taken through NumPy (tobytes) and Unit attributes. A failed in-place call may retype an integer target to "
    "float with numbers and unit intact (the statement promises numbers and unit). Whether a faulty call is refused at all is "
    "C01/C08's subject.",
    "fault injection at every in-place call site + before/after snapshots; Hypothesis values and call sequences", "DESIGN.md §3 C18")
chk("C09", "exploration",
    "Exhaustive sweep over all 30 ordered (equivalence, from-dimension, to-dimension) pairs of the 9 built-in equivalences x every "
    "input/target unit of per-dimension pools (SI, CGS, prefixed, compound), plus Hypothesis cases (units, intermediate member, "
    "mu/gamma incl. array-valued against a scalar input, values over +-12 decades within each formula's domain, scalar/array, "
    "int8..uint64/float64/float32, one case in four in a registry of code units with the target spelled as that registry's symbol) through to_equivalent / to / "
    "in_units / to_value / convert_to_equivalent / convert_to_units(equivalence=). Oracles: closed-form SI formula with the "
    "library's own constants, there-and-back, via-intermediate == direct, entry-point agreement, input snapshot for copying "
    "forms, in-place == copy, InvalidUnitEquivalence for uncovered requests (with the input left intact).",
    "Trusted: the nine formulas written from the statement/docstrings; constants and unit scales read from the library as data. "
    "rel tol 1e-11 (lorentz 1e-7, beta <= 0.999999; float32 input 5e-6, never inf for a result inside double range).",
    "exhaustive (equivalence, from, to, units) sweep + Hypothesis values vs closed-form formulas, round-trip and path laws", "DESIGN.md §3 C09")
chk("C10", "exploration",
    "Exhaustive: the 7 built-in unit systems x all atomic symbols of the independent table plus prefixed/compound/EM units "
    "(~1250 pairs); generated: user-defined UnitSystems (base units per dimension incl. quantity-valued bases, 0-3 overrides, "
    "with/without an MKS current) x atomic and compound units, a warmed and a cold copy of each system, quantities living in a "
    "private code-unit registry, the same system name defined again with other base units, and one inconsistent construction per "
    "case (half of them under the name of a registered system, which must keep answering). Judged: atoms of the result inside what the system "
    "was constructed with (own record), dimension preserved or documented EM counterpart, round trip, get_base_equivalent / "
    "convert_to_base / in_cgs / in_mks agreement, idempotence, independence of request history, result stays in its registry, "
    "IllDefinedUnitSystem for inconsistent bases. Quantities in a private registry that re-scales the symbols the built-in systems are made of: in_base agrees with conversion by name in that registry and stays in it.",
    "Trusted: hand-copied record of the built-in systems' definitions and the EM pairing table; UnitsNotReducible is always "
    "accepted; scales beyond 1e+-60 excluded.",
    "exhaustive (system, unit) enumeration + Hypothesis-generated unit systems with construction-record oracle", "DESIGN.md §3 C10")
chk("C19", "exploration",
    "Closeness helpers: Hypothesis cases in 6 unit families with values constructed at theta x tolerance from the acceptance "
    "boundary (theta in 0, .5, .99, 1.01, 2, 50), rtol bare / dimensionless quantity / percent / dimensional, atol zero / bare / in "
    "desired's unit / in another commensurable unit / incommensurable, scalar / array / list-of-quantities operands, each verdict "
    "recomputed on SI magnitudes with the statement's semantics and re-checked after re-expressing actual, desired and atol in "
    "other units; incommensurable pairs must be refused by allclose_units, assert_allclose_units, np.allclose, np.isclose, "
    "np.array_equal; array_equal / array_equiv / assert_array_equal_units must reject physically equal but differently spelled "
    "operands. Decorators: exhaustive over every dimension in unyt.dimensions x SI/CGS/imperial/galactic spellings x 17 accepts "
    "usages and 4 returns usages with an instrumented wrapped function (call counter, identity of the returned object), plus "
    "call histories (valid, swapped slots, valid ...) on one decorated function whose slots differ in dimension, and signatures "
    "with *args / **kwargs catch-alls. Same-spelled but different units (symbol re-scaled or re-added between two constructions in one registry, two registries) through all seven helpers in both argument orders.",
    "Trusted: the SI scale of each of the 25 unit spellings is read from the library (cross-checked at 1e-5 against the "
    "independent table) so that the helpers' logic, not the table's accuracy, is judged. NumPy spellings only with atol=0; "
    "dimensionless operands excluded from the NumPy spellings (they adopt the other operand's unit by the library's tested contract).",
    "boundary-constructed Hypothesis cases with SI verdict oracle + metamorphic re-expression; exhaustive decorator usage matrix", "DESIGN.md §3 C19")
chk("C12", "exploration",
    "Exhaustive BFS over all histories up to length 3 (quick) / 4 (thorough) on a 17-letter alphabet of registry edits (add, re-add "
    "with other scale / dimension / prefixability, modify by float, modify by quantity incl. same-scale dimension swap, remove, "
    "define_unit, on a prefixable symbol, a plain one, an explicit symbol colliding with a derived prefixed spelling, and a default "
    "symbol) with, after every step, a sweep of 26 probe strings (atomic, SI-prefixed, compound, sqrt, written-out names) and 12 arithmetic / "
    "conversion / base-reduction / printed-unit-sync observations (which also populate every cache before the next edit); "
    "Hypothesis histories of length 5-40 beyond. Oracle: a plain-dict model of the registry's explicit contents with its own "
    "prefix resolver (what a fresh registry with those contents answers), computed without touching the library. Units captured "
    "before an edit must keep their value; quantities held across an edit are converted / added / compared to the current "
    "unit of the same spelling (old scale / new scale, or a refusal when the dimension changed). Histories run under mks / cgs / galactic "
    "registries; every probe is also read through a shallow copy of the registry and through the registry of Unit.copy() with edits applied "
    "alternately through either handle; a deep copy taken mid-history keeps answering with the contents at copy time; captured Unit objects "
    "are passed to the array constructors.",
    "Trusted: scales of unedited default symbols read from the library's table as data; each history runs in a registry carrying a "
    "unique marker symbol so that the process-wide content-hash-keyed caches cannot mix histories (the cross-registry effect is "
    "C13's subject).",
    "exhaustive BFS over edit histories + Hypothesis long histories vs dict model (model-based testing)", "DESIGN.md §3 C12")
chk("C13", "exploration",
    "Hypothesis interleavings over 2-4 custom registries created by every route (UnitRegistry(), several with identical contents, "
    "lut= own dict, from_json, unpickling, deepcopy, Unit.copy(deep=True), non-default unit system) and the default registry: 25 "
    "operations (edits, unit construction, arithmetic, add_symbols/add_constants namespaces, UnitSystem creation, pickle / JSON / "
    "deepcopy round trips followed by edits of the restored registry, mixed-registry arithmetic, modify/remove attempts on the "
    "default table through the registry, through units, through shallow copies, forks by deepcopy / pickle mid-history that must equal "
    "their source when made, define_unit on private copies of the default registry). After every step a digest of every registry "
    "(20 probe strings, arithmetic / conversion / base-reduction results, registry identity of results) must be unchanged for "
    "every registry not acted on, and an import-time snapshot of the default registry, default_unit_symbol_lut, exported units and "
    "constants and a conversion panel must be intact. A deterministic grid of code unit systems (UnitSystem(reg.unit_system_id, ..., registry=reg), in_base('code')) for a registry and its fork: answers through one registry use its own definitions, stay in it and do not move when the other is edited.",
    "Trusted: the digest as the definition of 'what a registry resolves'. Pure observations (unit construction, arithmetic, "
    "namespaces, round trips) may not change anything observable even in the registry they go through. add/define_unit on the "
    "default registry are legitimate writers and are not exercised.",
    "Hypothesis-generated operation interleavings with per-registry digest invariants (stateful / model-based)", "DESIGN.md §3 C13")
chk("C20", "exploration",
    "Hypothesis: valid expressions from the AST grammar over all table names in ~12 equivalent spellings each (spacing, parentheses, "
    "unit factors, float vs rational exponents, unicode vs ASCII signs) must give equal units; units obtained by unit arithmetic "
    "(products, quotients, powers, simplify, print-simplify-print histories, custom registry) are printed with str/repr, re-parsed "
    "and pickled and must come back equal (identical expression and hash without a coefficient); token-level mutations with ~120 "
    "hazard tokens must end in a Unit or UnitParseError. Exhaustive: str/repr round trip of every atomic and prefixed name; ~90 "
    "non-vocabulary Python constructs that must be refused (incl. every non-vocabulary entry found in the parser's evaluation "
    "namespace at run time); units with a numeric coefficient raised to fractional powers; ~75 strings that raise during evaluation. Every parse runs under an "
    "audit hook with canaries (file creation, builtins). thorough adds a 10-minute coverage-guided atheris/libFuzzer campaign on "
    "Unit(str) with the same oracle inside the target. 19 groups of equivalent spellings are read in a registry before and after their symbols were re-scaled; the printed form re-reads to the same unit there.",
    "Termination is not decided (liveness): numeric power towers are capped in the generators and a watchdog kills wedged workers; "
    "a timeout is inconclusive. Audit events of the parser's own activity (compile/exec/getattr, imports of sympy/stdlib parsing "
    "modules, source lookups for tracebacks) are allowed.",
    "grammar-based generation + printer round trip + token mutation (Hypothesis) and coverage-guided fuzzing (atheris)", "DESIGN.md §3 C20")
chk("C11", "exploration",
    "Deterministic grid of 16 persistence routes (pickle protocols 2-5, nested containers, copy, deepcopy, .copy(), Unit.copy "
    "deep/shallow, Unit pickle/deepcopy, savetxt->loadtxt, Unit(str(u)), registry to_json->from_json loaded twice with an edit in "
    "between) x 3 registry kinds (default; custom with added, prefixable, offset symbols; custom with modified default symbols and "
    "a cgs unit system) x 29 special units (angles, offset/delta temperatures, logarithmic, lat/lon, code units, EM, mol) and "
    "Hypothesis cases with generated compound units, dtypes, scalar/array, 1-4 follow-up steps out of 44 in either order. "
    "Immediately after restore: same bytes/dtype/shape/class, equal unit and str, same registry resolution of a probe set incl. "
    "user symbols; afterwards a behavioural differential against a never-persisted twin (same value, equal unit, or same "
    "exception class) covering angle-aware trig, temperature and logarithmic guards, unit-system conversion incl. the registry's "
    "own default, conversion to custom units, arithmetic with the original, reductions. Histories: the unit outlived a registry "
    "edit before an object copy; the original registry is edited after the restore (a restored object with its own table is a "
    "snapshot, and units parsed against its registry belong to it). A shallow copy shares its table with the original: after an edit through either handle, by-name operations through both give the same outcome. Single / half precision follow-up results are compared within 2 ulp of that type.",
    "HDF5 not exercised (h5py absent); pickle protocols 0/1 are refused loudly by SymPy itself and are not exercised; savetxt with "
    "a custom registry is not exercised (the text format cannot carry a registry). Derived results are compared at rel 1e-13.",
    "Hypothesis object x route x follow-up program generation; behavioural differential original vs restored", "DESIGN.md §3 C11")
