chk("C14", "exploration",
    "Exhaustive enumeration of the finite name space: every documented name, every exported "
    "attribute, every prefix-spelling x base string, through string / attribute / custom "
    "namespace / compound routes, judged by an independently written prefix-alias splitter. "
    "The space is finite and fully covered, so within the name inventory this is a complete "
    "decision, not a sample.",
    "Trusted: the hand-written alias/prefix table in vf/oracle/table.py and the name inventory "
    "read from unyt as data; scale accuracy of table rows themselves is C02's subject.",
    "exhaustive enumeration against an independent name resolver", "DESIGN.md §3 C14")
