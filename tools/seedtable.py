#!/venv/bin/python
"""Print the seeded-change matrix (markdown) from seeded/*/meta.json."""
import glob, json, os
rows = []
for d in sorted(glob.glob("/verif/seeded/*")):
    m = json.load(open(os.path.join(d, "meta.json")))
    name = os.path.basename(d)
    det = m.get("detected_by", {})
    cells = []
    for pid, r in sorted(det.items()):
        k = (r.get("keys") or [""])[0].split(" :: ")[0]
        cells.append(f"{pid}: {'caught' if r.get('rc') == 1 else 'MISSED' if r.get('rc') == 0 else 'n/a rc=' + str(r.get('rc'))}" + (f" (`{k[:70]}`)" if r.get("rc") == 1 else ""))
    what = (m.get("breaks") or "").replace("\n", " ").replace("|", "/")[:150]
    rows.append(f"| {name} | {what} | {'; '.join(cells) or 'not run'} |")
print("| change | what it breaks (author's words, truncated) | quick tier of the targeted property |")
print("|---|---|---|")
print("\n".join(rows))
