#!/bin/sh
# Run seeded changes (default: all) against the quick tier of their property, each in a throw-away worktree of /repo's HEAD.
#   tools/seedmatrix.sh [-P n] [name ...]      results land in seeded/<name>/meta.json (detected_by)
P=3
if [ "$1" = "-P" ]; then P=$2; shift 2; fi
cd "$(dirname "$0")/.." || exit 2
if [ $# -eq 0 ]; then set -- $(ls seeded); fi
printf '%s\n' "$@" | SEED_WT=1 xargs -P "$P" -I{} sh -c '/venv/bin/python tools/seed.py run {} 2>&1 | grep " vs C" | head -3'
