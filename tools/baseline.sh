#!/bin/sh
# Runs the repository's pinned test command (guard off) and compares the set of
# passing tests with /root/.vp/BASELINE.json's stable_pass list.  usage: baseline.sh [repo_dir]
R="${1:-/repo}"
OUT=$(mktemp /tmp/junit.XXXXXX.xml)
cd "$R" && env -u YT_PROJECT_UNYT_VERIF /venv/bin/python -m pytest -ra -q -p no:cacheprovider --timeout=900 --continue-on-collection-errors --junitxml="$OUT" >/dev/null 2>&1
/venv/bin/python - "$OUT" <<'PY'
import json, sys, xml.etree.ElementTree as ET
base = set(json.load(open('/root/.vp/BASELINE.json'))['stable_pass'])
passed = set()
for tc in ET.parse(sys.argv[1]).getroot().iter('testcase'):
    if not any(ch.tag in ('failure', 'error', 'skipped') for ch in tc):
        passed.add(f"{tc.get('classname')}::{tc.get('name')}")
missing = sorted(base - passed)
print(f"baseline stable_pass={len(base)} passed_now={len(passed)} missing_from_baseline={len(missing)}")
for m in missing[:20]:
    print("  MISSING", m)
sys.exit(1 if missing else 0)
PY
rc=$?; rm -f "$OUT"; exit $rc
