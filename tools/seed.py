#!/venv/bin/python
"""Confirm and store a seeded change, or run checks against stored ones.

  seed.py confirm <ID> <i>         # uses /tmp/wt-<ID>/out/{patch,demo,meta}<i>.*: confirm in the
                                   # scratch worktree (demo fails with / passes without, baseline
                                   # pass-set unchanged), then store as /verif/seeded/<ID>_<i>/
  seed.py run <name> [ID ...]      # apply seeded/<name>/patch.diff to /repo, run ./check for the
                                   # given properties (default: the one it targets), always revert
"""
import json, os, shutil, subprocess, sys

V = "/verif"


def sh(cmd, cwd=None, timeout=3600):
    p = subprocess.run(cmd, shell=True, cwd=cwd, capture_output=True, text=True, timeout=timeout)
    return p.returncode, (p.stdout + p.stderr)


def confirm(pid, i):
    wt = f"/tmp/wt-{pid}"
    out = f"{wt}/out"
    patch, demo, meta = f"{out}/patch{i}.diff", f"{out}/demo{i}.py", f"{out}/meta{i}.json"
    sh("git checkout -- unyt", wt)
    rc0, o0 = sh(f"/venv/bin/python {demo}", wt)
    rc, o = sh(f"git apply {patch}", wt)
    if rc:
        print("patch does not apply:", o); return 1
    rc1, o1 = sh(f"/venv/bin/python {demo}", wt)
    rcb, ob = sh(f"{V}/tools/baseline.sh {wt}")
    rci, oi = sh("/venv/bin/python -c 'import unyt'", wt)
    sh("git checkout -- unyt", wt)
    print(f"demo clean rc={rc0}  demo patched rc={rc1}  baseline rc={rcb} ({ob.strip().splitlines()[0] if ob.strip() else ''}) import rc={rci}")
    if not (rc0 == 0 and rc1 != 0 and rcb == 0 and rci == 0):
        print("NOT CONFIRMED"); print(o0[-500:], o1[-800:], ob[-500:]); return 1
    dst = f"{V}/seeded/{pid}_{i}"
    os.makedirs(dst, exist_ok=True)
    shutil.copy(patch, f"{dst}/patch.diff"); shutil.copy(demo, f"{dst}/demo.py")
    m = json.load(open(meta)) if os.path.exists(meta) else {}
    m = {"property": pid, "breaks": m.get("breaks"), "needs": m.get("needs"), "author_ran": m.get("ran"),
         "confirmed": {"demo_clean_rc": rc0, "demo_patched_rc": rc1, "baseline": ob.strip().splitlines()[0],
                       "how": "tools/seed.py confirm: demo run in scratch worktree with and without patch; "
                              "tools/baseline.sh compares the pass-set with BASELINE.json"},
         "detected_by": {}}
    json.dump(m, open(f"{dst}/meta.json", "w"), indent=1, ensure_ascii=False)
    print("stored", dst); return 0


def run_in_worktree(name, pids):
    """Same as run() but in a throw-away worktree of /repo's HEAD (SEED_WT=1): lets several seeded changes be
    exercised in parallel and never touches /repo; evidence/replay of these runs go to a scratch directory."""
    dst = f"{V}/seeded/{name}"
    m = json.load(open(f"{dst}/meta.json"))
    pids = pids or [m["property"]]
    wt, outd = f"/tmp/vf-seedwt-{name}", f"/tmp/vf-seedout-{name}"
    sh(f"git worktree remove --force {wt}", "/repo")
    rc, o = sh(f"git worktree add -f --detach {wt} HEAD", "/repo")
    if rc:
        print("cannot create worktree:", o); return 2
    try:
        rc, o = sh(f"git apply {dst}/patch.diff", wt)
        if rc:
            rc, o = sh(f"git apply -3 {dst}/patch.diff", wt)
            if rc:
                print(f"{name}: patch does not apply to HEAD:", o[:200])
                m.setdefault("detected_by", {})[pids[0]] = {"rc": None, "note": "patch no longer applies to the repaired tree"}
                json.dump(m, open(f"{dst}/meta.json", "w"), indent=1, ensure_ascii=False)
                return 2
        for pid in pids:
            tier = os.environ.get("SEED_TIER", "quick")
            rc, o = sh(f"VF_REPO={wt} VF_OUT={outd} ./check {pid} {tier}", V)
            viol = [l for l in o.splitlines() if l.startswith("VIOLATION")]
            keys = [l.strip() for l in o.splitlines() if l.startswith("  - ")]
            print(f"{name} vs {pid}: rc={rc} violations={len(viol)}")
            for k in keys[:3]:
                print("   ", k[:260])
            if rc not in (0, 1):
                print(o[-1200:])
            m.setdefault("detected_by", {})[pid] = {"rc": rc, "tier": tier, "keys": [k[4:160] for k in keys[:6]]}
    finally:
        sh(f"git worktree remove --force {wt}", "/repo")
        shutil.rmtree(outd, ignore_errors=True)
    json.dump(m, open(f"{dst}/meta.json", "w"), indent=1, ensure_ascii=False)
    return 0


def run(name, pids):
    if os.environ.get("SEED_WT") == "1":
        return run_in_worktree(name, pids)
    dst = f"{V}/seeded/{name}"
    m = json.load(open(f"{dst}/meta.json"))
    pids = pids or [m["property"]]
    rc, o = sh("git status --porcelain", "/repo")
    if o.strip():
        print("repo not clean:", o); return 2
    rc, o = sh(f"git apply {dst}/patch.diff", "/repo")
    if rc:
        rc, o = sh(f"git apply -3 {dst}/patch.diff", "/repo")
        if rc:
            sh("git reset -q --hard HEAD", "/repo")
            print("patch does not apply to /repo:", o); return 2
    try:
        for pid in pids:
            tier = os.environ.get("SEED_TIER", "quick")
            rc, o = sh(f"./check {pid} {tier}", V)
            viol = [l for l in o.splitlines() if l.startswith("VIOLATION")]
            keys = [l.strip() for l in o.splitlines() if l.startswith("  - ")]
            print(f"{name} vs {pid}: rc={rc} violations={len(viol)}")
            for k in keys[:4]:
                print("   ", k[:300])
            if rc not in (0, 1):
                print(o[-1500:])
            m.setdefault("detected_by", {})[pid] = {"rc": rc, "tier": tier, "keys": [k[4:160] for k in keys[:6]]}
    finally:
        sh("git reset -q --hard HEAD", "/repo")  # also clears the index (git apply -3 stages what it applies)
        sh("git stash drop", "/repo") if False else None
    json.dump(m, open(f"{dst}/meta.json", "w"), indent=1, ensure_ascii=False)
    return 0


if __name__ == "__main__":
    if sys.argv[1] == "confirm":
        sys.exit(confirm(sys.argv[2], sys.argv[3]))
    sys.exit(run(sys.argv[2], sys.argv[3:]))
