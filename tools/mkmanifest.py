#!/venv/bin/python
"""Regenerate MANIFEST.json from the table below (kept in one place so the file
is always schema-valid)."""
import json, os

HERE = os.path.dirname(os.path.dirname(os.path.abspath(__file__)))
CHECKS = {}
NOT_YET = {}


# sentences added after rounds 7 and 8 of seeded changes (appended to the level text of the property)
ADD = {
    "C01": " Operand kinds also include bare arrays that contain a zero without being all-zero (the documented exception covers all-zero operands only).",
    "C02": " Compound expressions carry numeric coefficients also under powers and roots (sqrt(2*km), (10*km**3)**(1/3)).",
    "C03": " Generated unit expressions carry numeric coefficients also under powers and roots.",
    "C04": " A deterministic power sweep raises pure-number bases with and without scale (percent, km/m) and dimensional bases to arrays of unequal exponents in 6 spellings: refused, or every element is the SI magnitude raised to its own exponent.",
    "C05": " One product reached through other associations / orders / from its printed expression must hash equally and be found as a dict key.",
    "C06": " The catalogue includes explicit dtype= requests in method and function spellings and histogram2d / histogramdd with coordinates in different units sharing one edge array.",
    "C07": " The catalogue includes histogram2d / histogramdd with the two coordinates in different units of one dimension and shared or per-axis edge arrays in either unit, and explicit dtype= requests (single-precision requests judged under the bit-exact assignments only).",
    "C09": " The temperature pool includes offset scales (degC, degF, mdegC, kdegC) as input, target and intermediate, judged with the exact affine maps.",
    "C11": " A cross-process part pickles in one interpreter and loads in a fresh one (writer and reader are separate subprocesses running the same script): trigonometry after the non-angle factor is divided away, temperature / logarithmic guards, roots of squares agree with the originals.",
    "C13": " Unit objects (exported ones, units of another registry) passed to constructors together with registry= (validated and bypass_validation forms) must keep their owner; define_unit into a registry created without default symbols must land there and nowhere else.",
    "C17": " Deterministic grids: conversion routes between units whose scales are stored as NumPy scalars keep the width for float16/float32/complex64/int16/int32 and agree between copy and in-place; complex data in mixed units (9 unit pairs x 2 widths x 10 forms) against exact complex arithmetic.",
    "C18": " Both operands tracked with the second written in another commensurable unit: ~50 copying binary forms (non-mutation, independent result memory), 14 in-place forms against their copying twins, 12 store forms (item assignment, fill, put, copyto, putmask, place) against value.to(target unit).",
    "C19": " Decorators stacked in either order and applied twice; the dimensionless dimension as spec (bare and wrapped pure numbers pass, dimensional values are refused, every slot of returns); NumPy spellings also on pure numbers written with scales (percent, km/m vs dimensionless).",
    "C20": " Units with a zero point reached through arithmetic that leaves them unchanged (13 forms x every offset-carrying name) must print to text that reads back; every name and its printed forms as UTF-8 bytes / numpy.bytes_; large legal exponents on a fifth of the names (totality).",
}


def chk(pid, category, text, note, technique, ref, thorough=True):
    text = text + ADD.get(pid, "")
    CHECKS[pid] = dict(
        property_id=pid,
        quick_cmd=f"./check {pid} quick",
        **({"thorough_cmd": f"./check {pid} thorough"} if thorough else {}),
        evidence_file=f"evidence/{pid}.json",
        replay_cmd_template=f"./check {pid} quick --replay {{path}}",
        engine="vf",
        level_claimed=dict(category=category, text=text, design_ref=ref),
        level_note=note,
        technique=technique,
    )


exec(open(os.path.join(HERE, "tools", "manifest_entries.py")).read())

props = [json.loads(l)["id"] for l in open(os.path.join(HERE, "properties.jsonl"))]
man = dict(
    version=1,
    setup_cmd="sh ./setup.sh",
    hooks=dict(
        guard="YT_PROJECT_UNYT_VERIF",
        enable="no source hooks are needed: every observation point is public API; the checks "
               "export YT_PROJECT_UNYT_VERIF=1 for uniformity but unyt never reads it",
        baseline_off_cmd="cd /repo && /venv/bin/python -m pytest -ra -q -p no:cacheprovider "
                         "--timeout=900 --continue-on-collection-errors",
        source_commits=[],
        add_only=True,
    ),
    engines=[dict(name="vf", path="vf/", serves_properties=sorted(CHECKS),
                  kind_free_text="property-based testing / exhaustive enumeration / fuzzing harness "
                  "(Hypothesis strategies and state machines, itertools enumerations over finite "
                  "tables, atheris campaign) with independent oracles under vf/oracle")],
    checks=[CHECKS[p] for p in props if p in CHECKS],
    not_applicable=[dict(property_id=p, reason=NOT_YET.get(p, "check not built yet (work in progress); "
                    "the technique applies, see DESIGN.md")) for p in props if p not in CHECKS],
    notes="All checks run against /repo's working tree (unyt is installed editable from /repo; the "
          "runner refuses to run if unyt is imported from elsewhere). Exit 2 = harness error.",
)
json.dump(man, open(os.path.join(HERE, "MANIFEST.json"), "w"), indent=1, ensure_ascii=False)
print("checks:", sorted(CHECKS), "not_applicable:", [p for p in props if p not in CHECKS])
