#!/venv/bin/python
"""Regenerate MANIFEST.json from the table below (kept in one place so the file
is always schema-valid)."""
import json, os

HERE = os.path.dirname(os.path.dirname(os.path.abspath(__file__)))
CHECKS = {}
NOT_YET = {}


def chk(pid, category, text, note, technique, ref, thorough=True):
    CHECKS[pid] = dict(
        property_id=pid,
        quick_cmd=f"./check {pid} quick",
        **({"thorough_cmd": f"./check {pid} thorough"} if thorough else {}),
        evidence_file=f"evidence/{pid}.json",
        replay_cmd_template=f"./check {pid} quick --replay {{path}}",
        engine="vf",
        level_claimed=dict(category=category, text=text, design_ref=ref),
        level_note=note,
        technique=technique,
    )


exec(open(os.path.join(HERE, "tools", "manifest_entries.py")).read())

props = [json.loads(l)["id"] for l in open(os.path.join(HERE, "properties.jsonl"))]
man = dict(
    version=1,
    setup_cmd="sh ./setup.sh",
    hooks=dict(
        guard="YT_PROJECT_UNYT_VERIF",
        enable="no source hooks are needed: every observation point is public API; the checks "
               "export YT_PROJECT_UNYT_VERIF=1 for uniformity but unyt never reads it",
        baseline_off_cmd="cd /repo && /venv/bin/python -m pytest -ra -q -p no:cacheprovider "
                         "--timeout=900 --continue-on-collection-errors",
        source_commits=[],
        add_only=True,
    ),
    engines=[dict(name="vf", path="vf/", serves_properties=sorted(CHECKS),
                  kind_free_text="property-based testing / exhaustive enumeration / fuzzing harness "
                  "(Hypothesis strategies and state machines, itertools enumerations over finite "
                  "tables, atheris campaign) with independent oracles under vf/oracle")],
    checks=[CHECKS[p] for p in props if p in CHECKS],
    not_applicable=[dict(property_id=p, reason=NOT_YET.get(p, "check not built yet (work in progress); "
                    "the technique applies, see DESIGN.md")) for p in props if p not in CHECKS],
    notes="All checks run against /repo's working tree (unyt is installed editable from /repo; the "
          "runner refuses to run if unyt is imported from elsewhere). Exit 2 = harness error.",
)
json.dump(man, open(os.path.join(HERE, "MANIFEST.json"), "w"), indent=1, ensure_ascii=False)
print("checks:", sorted(CHECKS), "not_applicable:", [p for p in props if p not in CHECKS])
